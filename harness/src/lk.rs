//! Uniform, object-safe view (`Lk`, `Held`) over every concrete lockable target the harness
//! drives: single locks, poisonable wrappers, arena units and dynamic collections.  These are
//! thin adapters — each method calls exactly one happylock API.

use happylock::collection::{
	BoxedLockCollection, LockGuard, OwnedLockCollection, RefLockCollection, RetryingLockCollection,
};
use happylock::mutex::MutexGuard;
use happylock::poisonable::{PoisonGuard, PoisonResult, Poisonable, TryLockPoisonableError};
use happylock::rwlock::{RwLockReadGuard, RwLockWriteGuard};
use happylock::ThreadKey;

use crate::arena::*;
use crate::audit::{AuditMutex, AuditRwLock};
use crate::world::Mode;

pub enum Pay<'x> {
	Mut(&'x mut Cell3),
	Ref(&'x Cell3),
}
impl Pay<'_> {
	pub fn get(&self) -> &Cell3 {
		match self {
			Pay::Mut(c) => c,
			Pay::Ref(c) => c,
		}
	}
}
/// payloads in declared order, each with the poison verdict of its enclosing Poisonable (if any)
pub type Flat<'x> = Vec<(Pay<'x>, Option<bool>)>;

pub enum KeyArg<'k> {
	Owned(ThreadKey),
	Lent(&'k mut ThreadKey),
}

/// a live guard
pub trait Held {
	fn flat(&mut self) -> Flat<'_>;
	/// `Type::unlock(guard)` / `unlock_read` / `unlock_write`
	fn unlock(self: Box<Self>) -> ThreadKey;
	/// Some(p): the guard came out of a Poisonable's own API with verdict p
	fn top_poison(&self) -> Option<bool>;
	fn forget(self: Box<Self>);
	fn debug(&self) -> String;
}

pub enum TryOut<'s> {
	Ok(Box<dyn Held + 's>),
	WouldBlock(ThreadKey),
}

pub type Body<'f, 's> = &'f (dyn for<'x> Fn(Flat<'x>, Option<bool>) + 's);

pub trait Lk {
	fn lock<'s>(&'s self, key: ThreadKey, mode: Mode) -> Box<dyn Held + 's>;
	fn try_lock<'s>(&'s self, key: ThreadKey, mode: Mode) -> TryOut<'s>;
	fn scoped<'s>(&'s self, key: KeyArg<'_>, mode: Mode, f: Body<'_, 's>);
	fn scoped_try<'s, 'k>(
		&'s self,
		key: KeyArg<'k>,
		mode: Mode,
		f: Body<'_, 's>,
	) -> Result<(), KeyArg<'k>>;
	fn debug(&self) -> String;
	/// `write!(out, "{:?}", self)` into a caller-supplied sink (which may fail part way)
	fn debug_to(&self, out: &mut dyn std::fmt::Write) -> std::fmt::Result;
	fn is_retry(&self) -> bool {
		false
	}
	/// every non-acquiring accessor this type offers through `&self`
	/// (child, iter, as_ref, into_iter(&), is_poisoned, clear_poison); returns how many were called
	fn accessors(&self) -> u32 {
		0
	}
}

fn conv<'x>(v: Vec<(&'x mut Cell3, Option<bool>)>) -> Flat<'x> {
	v.into_iter().map(|(c, p)| (Pay::Mut(c), p)).collect()
}
fn conv_ref<'x>(v: Vec<(&'x Cell3, Option<bool>)>) -> Flat<'x> {
	v.into_iter().map(|(c, p)| (Pay::Ref(c), p)).collect()
}

// ---------------------------------------------------------------------------------------------
// Held wrappers

macro_rules! held {
	($name:ident, $guard:ty, |$g:ident| $flat:expr, |$u:ident| $unlock:expr) => {
		pub struct $name<'g>(pub Option<$guard>, pub Option<bool>);
		impl<'g> Held for $name<'g> {
			fn flat(&mut self) -> Flat<'_> {
				let $g = self.0.as_mut().unwrap();
				$flat
			}
			fn unlock(mut self: Box<Self>) -> ThreadKey {
				let $u = self.0.take().unwrap();
				$unlock
			}
			fn top_poison(&self) -> Option<bool> {
				self.1
			}
			fn forget(mut self: Box<Self>) {
				std::mem::forget(self.0.take());
			}
			fn debug(&self) -> String {
				format!("{:?}", self.0.as_ref().unwrap())
			}
		}
	};
}

// single locks
held!(HM, MutexGuard<'g, Cell3, AuditMutex>,
	|g| vec![(Pay::Mut(&mut **g), None)],
	|u| happylock::mutex::Mutex::unlock(u));
held!(HW, RwLockWriteGuard<'g, Cell3, AuditRwLock>,
	|g| vec![(Pay::Mut(&mut **g), None)],
	|u| happylock::rwlock::RwLock::unlock_write(u));
held!(HR, RwLockReadGuard<'g, Cell3, AuditRwLock>,
	|g| vec![(Pay::Ref(&**g), None)],
	|u| happylock::rwlock::RwLock::unlock_read(u));

// poisonable single locks
pub struct HPM<'g>(pub Option<PoisonGuard<'g, MRef<'g>>>, pub Option<bool>);
impl<'g> Held for HPM<'g> {
	fn flat(&mut self) -> Flat<'_> {
		let p = self.1;
		vec![(Pay::Mut(&mut **self.0.as_mut().unwrap()), p)]
	}
	fn unlock(mut self: Box<Self>) -> ThreadKey {
		Poisonable::<M>::unlock(self.0.take().unwrap())
	}
	fn top_poison(&self) -> Option<bool> {
		self.1
	}
	fn forget(mut self: Box<Self>) {
		std::mem::forget(self.0.take());
	}
	fn debug(&self) -> String {
		format!("{:?}", self.0.as_ref().unwrap())
	}
}
pub struct HPW<'g>(pub Option<PoisonGuard<'g, WRef<'g>>>, pub Option<bool>);
impl<'g> Held for HPW<'g> {
	fn flat(&mut self) -> Flat<'_> {
		let p = self.1;
		vec![(Pay::Mut(&mut **self.0.as_mut().unwrap()), p)]
	}
	fn unlock(mut self: Box<Self>) -> ThreadKey {
		Poisonable::<R>::unlock(self.0.take().unwrap())
	}
	fn top_poison(&self) -> Option<bool> {
		self.1
	}
	fn forget(mut self: Box<Self>) {
		std::mem::forget(self.0.take());
	}
	fn debug(&self) -> String {
		format!("{:?}", self.0.as_ref().unwrap())
	}
}
pub struct HPR<'g>(pub Option<PoisonGuard<'g, RRef<'g>>>, pub Option<bool>);
impl<'g> Held for HPR<'g> {
	fn flat(&mut self) -> Flat<'_> {
		let p = self.1;
		vec![(Pay::Ref(&**self.0.as_ref().unwrap()), p)]
	}
	fn unlock(mut self: Box<Self>) -> ThreadKey {
		Poisonable::<R>::unlock_read(self.0.take().unwrap())
	}
	fn top_poison(&self) -> Option<bool> {
		self.1
	}
	fn forget(mut self: Box<Self>) {
		std::mem::forget(self.0.take());
	}
	fn debug(&self) -> String {
		format!("{:?}", self.0.as_ref().unwrap())
	}
}

// collections over Vec<M> / Vec<R>
macro_rules! held_vec {
	($name:ident, $refty:ty, $pay:ident, $coll:ident, $elem:ty, $unlock:ident) => {
		pub struct $name<'g>(pub Option<LockGuard<Box<[$refty]>>>, pub Option<bool>);
		impl<'g> Held for $name<'g> {
			fn flat(&mut self) -> Flat<'_> {
				held_vec!(@flat $pay, self)
			}
			fn unlock(mut self: Box<Self>) -> ThreadKey {
				$coll::<Vec<$elem>>::$unlock(self.0.take().unwrap())
			}
			fn top_poison(&self) -> Option<bool> {
				None
			}
			fn forget(mut self: Box<Self>) {
				std::mem::forget(self.0.take());
			}
			fn debug(&self) -> String {
				format!("{:?}", self.0.as_ref().unwrap())
			}
		}
	};
	(@flat Mut, $s:ident) => {{
		let g = $s.0.as_mut().unwrap();
		g.iter_mut().map(|r| (Pay::Mut(&mut **r), None)).collect()
	}};
	(@flat Ref, $s:ident) => {{
		let g = $s.0.as_ref().unwrap();
		g.iter().map(|r| (Pay::Ref(&**r), None)).collect()
	}};
}
held_vec!(HOwnedM, MRef<'g>, Mut, OwnedLockCollection, M, unlock);
held_vec!(HOwnedW, WRef<'g>, Mut, OwnedLockCollection, R, unlock);
held_vec!(HOwnedR, RRef<'g>, Ref, OwnedLockCollection, R, unlock_read);
held_vec!(HBoxedM, MRef<'g>, Mut, BoxedLockCollection, M, unlock);
held_vec!(HBoxedW, WRef<'g>, Mut, BoxedLockCollection, R, unlock);
held_vec!(HBoxedR, RRef<'g>, Ref, BoxedLockCollection, R, unlock_read);
held_vec!(HRetryM, MRef<'g>, Mut, RetryingLockCollection, M, unlock);
held_vec!(HRetryW, WRef<'g>, Mut, RetryingLockCollection, R, unlock);
held_vec!(HRetryR, RRef<'g>, Ref, RetryingLockCollection, R, unlock_read);

// dynamic collections over MemVec
#[derive(Clone, Copy)]
pub enum DynKind {
	Boxed,
	Ref,
	Retry,
}
pub struct HDynW<'g>(pub Option<LockGuard<Box<[MGuard<'g>]>>>, pub DynKind);
impl<'g> Held for HDynW<'g> {
	fn flat(&mut self) -> Flat<'_> {
		let g = self.0.as_mut().unwrap();
		let mut out = Vec::new();
		for m in g.iter_mut() {
			flat_guard_mut(m, &mut out);
		}
		conv(out)
	}
	fn unlock(mut self: Box<Self>) -> ThreadKey {
		let g = self.0.take().unwrap();
		match self.1 {
			DynKind::Boxed => BoxedLockCollection::<MemVec<'g>>::unlock(g),
			DynKind::Ref => RefLockCollection::<'g, MemVec<'g>>::unlock(g),
			DynKind::Retry => RetryingLockCollection::<MemVec<'g>>::unlock(g),
		}
	}
	fn top_poison(&self) -> Option<bool> {
		None
	}
	fn forget(mut self: Box<Self>) {
		std::mem::forget(self.0.take());
	}
	fn debug(&self) -> String {
		format!("{:?}", self.0.as_ref().unwrap())
	}
}
pub struct HDynR<'g>(pub Option<LockGuard<Box<[MReadGuard<'g>]>>>, pub DynKind);
impl<'g> Held for HDynR<'g> {
	fn flat(&mut self) -> Flat<'_> {
		let g = self.0.as_ref().unwrap();
		let mut out = Vec::new();
		for m in g.iter() {
			flat_guard_ref(m, &mut out);
		}
		conv_ref(out)
	}
	fn unlock(mut self: Box<Self>) -> ThreadKey {
		let g = self.0.take().unwrap();
		match self.1 {
			DynKind::Boxed => BoxedLockCollection::<MemVec<'g>>::unlock_read(g),
			DynKind::Ref => RefLockCollection::<'g, MemVec<'g>>::unlock_read(g),
			DynKind::Retry => RetryingLockCollection::<MemVec<'g>>::unlock_read(g),
		}
	}
	fn top_poison(&self) -> Option<bool> {
		None
	}
	fn forget(mut self: Box<Self>) {
		std::mem::forget(self.0.take());
	}
	fn debug(&self) -> String {
		format!("{:?}", self.0.as_ref().unwrap())
	}
}

// Poisonable<BoxedLockCollection<MemVec>>
pub struct HPDynW<'g>(
	pub Option<PoisonGuard<'g, Box<[MGuard<'g>]>>>,
	pub Option<bool>,
);
impl<'g> Held for HPDynW<'g> {
	fn flat(&mut self) -> Flat<'_> {
		let p = self.1;
		let g: &mut Box<[MGuard<'g>]> = self.0.as_mut().unwrap().as_mut();
		let mut out = Vec::new();
		for m in g.iter_mut() {
			flat_guard_mut(m, &mut out);
		}
		out.into_iter()
			.map(|(c, q)| (Pay::Mut(c), q.or(p)))
			.collect()
	}
	fn unlock(mut self: Box<Self>) -> ThreadKey {
		Poisonable::<BoxedLockCollection<MemVec<'g>>>::unlock(self.0.take().unwrap())
	}
	fn top_poison(&self) -> Option<bool> {
		self.1
	}
	fn forget(mut self: Box<Self>) {
		std::mem::forget(self.0.take());
	}
	fn debug(&self) -> String {
		format!("{:?}", self.0.as_ref().unwrap())
	}
}
pub struct HPDynR<'g>(
	pub Option<PoisonGuard<'g, Box<[MReadGuard<'g>]>>>,
	pub Option<bool>,
);
impl<'g> Held for HPDynR<'g> {
	fn flat(&mut self) -> Flat<'_> {
		let p = self.1;
		let g: &Box<[MReadGuard<'g>]> = self.0.as_ref().unwrap().as_ref();
		let mut out = Vec::new();
		for m in g.iter() {
			flat_guard_ref(m, &mut out);
		}
		out.into_iter()
			.map(|(c, q)| (Pay::Ref(c), q.or(p)))
			.collect()
	}
	fn unlock(mut self: Box<Self>) -> ThreadKey {
		Poisonable::<BoxedLockCollection<MemVec<'g>>>::unlock_read(self.0.take().unwrap())
	}
	fn top_poison(&self) -> Option<bool> {
		self.1
	}
	fn forget(mut self: Box<Self>) {
		std::mem::forget(self.0.take());
	}
	fn debug(&self) -> String {
		format!("{:?}", self.0.as_ref().unwrap())
	}
}

// ---------------------------------------------------------------------------------------------
// Lk implementations

macro_rules! scoped_call {
	($self:ident, $m:ident, $key:ident, $f:expr) => {
		match $key {
			KeyArg::Owned(k) => $self.$m(k, $f),
			KeyArg::Lent(k) => $self.$m(k, $f),
		}
	};
}
macro_rules! scoped_try_call {
	($self:ident, $m:ident, $key:ident, $f:expr) => {
		match $key {
			KeyArg::Owned(k) => $self.$m(k, $f).map_err(KeyArg::Owned),
			KeyArg::Lent(k) => $self.$m(k, $f).map_err(KeyArg::Lent),
		}
	};
}

impl Lk for M {
	fn lock<'s>(&'s self, key: ThreadKey, _mode: Mode) -> Box<dyn Held + 's> {
		Box::new(HM(Some(self.lock(key)), None))
	}
	fn try_lock<'s>(&'s self, key: ThreadKey, _mode: Mode) -> TryOut<'s> {
		match self.try_lock(key) {
			Ok(g) => TryOut::Ok(Box::new(HM(Some(g), None))),
			Err(k) => TryOut::WouldBlock(k),
		}
	}
	fn scoped<'s>(&'s self, key: KeyArg<'_>, _mode: Mode, f: Body<'_, 's>) {
		scoped_call!(self, scoped_lock, key, |d: &mut Cell3| f(
			vec![(Pay::Mut(d), None)],
			None
		))
	}
	fn scoped_try<'s, 'k>(
		&'s self,
		key: KeyArg<'k>,
		_mode: Mode,
		f: Body<'_, 's>,
	) -> Result<(), KeyArg<'k>> {
		scoped_try_call!(self, scoped_try_lock, key, |d: &mut Cell3| f(
			vec![(Pay::Mut(d), None)],
			None
		))
	}
	fn debug(&self) -> String {
		format!("{:?}", self)
	}
	fn debug_to(&self, out: &mut dyn std::fmt::Write) -> std::fmt::Result {
		write!(out, "{:?}", self)
	}
}

impl Lk for R {
	fn lock<'s>(&'s self, key: ThreadKey, mode: Mode) -> Box<dyn Held + 's> {
		match mode {
			Mode::Excl => Box::new(HW(Some(self.write(key)), None)),
			Mode::Shared => Box::new(HR(Some(self.read(key)), None)),
		}
	}
	fn try_lock<'s>(&'s self, key: ThreadKey, mode: Mode) -> TryOut<'s> {
		match mode {
			Mode::Excl => match self.try_write(key) {
				Ok(g) => TryOut::Ok(Box::new(HW(Some(g), None))),
				Err(k) => TryOut::WouldBlock(k),
			},
			Mode::Shared => match self.try_read(key) {
				Ok(g) => TryOut::Ok(Box::new(HR(Some(g), None))),
				Err(k) => TryOut::WouldBlock(k),
			},
		}
	}
	fn scoped<'s>(&'s self, key: KeyArg<'_>, mode: Mode, f: Body<'_, 's>) {
		match mode {
			Mode::Excl => scoped_call!(self, scoped_write, key, |d: &mut Cell3| f(
				vec![(Pay::Mut(d), None)],
				None
			)),
			Mode::Shared => scoped_call!(self, scoped_read, key, |d: &Cell3| f(
				vec![(Pay::Ref(d), None)],
				None
			)),
		}
	}
	fn scoped_try<'s, 'k>(
		&'s self,
		key: KeyArg<'k>,
		mode: Mode,
		f: Body<'_, 's>,
	) -> Result<(), KeyArg<'k>> {
		match mode {
			Mode::Excl => scoped_try_call!(self, scoped_try_write, key, |d: &mut Cell3| f(
				vec![(Pay::Mut(d), None)],
				None
			)),
			Mode::Shared => scoped_try_call!(self, scoped_try_read, key, |d: &Cell3| f(
				vec![(Pay::Ref(d), None)],
				None
			)),
		}
	}
	fn debug(&self) -> String {
		format!("{:?}", self)
	}
	fn debug_to(&self, out: &mut dyn std::fmt::Write) -> std::fmt::Result {
		write!(out, "{:?}", self)
	}
}

fn split<G>(r: PoisonResult<G>) -> (G, bool) {
	match r {
		Ok(g) => (g, false),
		Err(e) => (e.into_inner(), true),
	}
}

impl Lk for PM {
	fn accessors(&self) -> u32 {
		let p = self.is_poisoned();
		if !p {
			self.clear_poison();
		}
		2
	}
	fn lock<'s>(&'s self, key: ThreadKey, _mode: Mode) -> Box<dyn Held + 's> {
		let (g, p) = split(self.lock(key));
		Box::new(HPM(Some(g), Some(p)))
	}
	fn try_lock<'s>(&'s self, key: ThreadKey, _mode: Mode) -> TryOut<'s> {
		match self.try_lock(key) {
			Ok(g) => TryOut::Ok(Box::new(HPM(Some(g), Some(false)))),
			Err(TryLockPoisonableError::Poisoned(e)) => {
				TryOut::Ok(Box::new(HPM(Some(e.into_inner()), Some(true))))
			}
			Err(TryLockPoisonableError::WouldBlock(k)) => TryOut::WouldBlock(k),
		}
	}
	fn scoped<'s>(&'s self, key: KeyArg<'_>, _mode: Mode, f: Body<'_, 's>) {
		scoped_call!(self, scoped_lock, key, |d: PoisonResult<&'s mut Cell3>| {
			let (d, p) = split(d);
			f(vec![(Pay::Mut(d), Some(p))], Some(p))
		})
	}
	fn scoped_try<'s, 'k>(
		&'s self,
		key: KeyArg<'k>,
		_mode: Mode,
		f: Body<'_, 's>,
	) -> Result<(), KeyArg<'k>> {
		scoped_try_call!(self, scoped_try_lock, key, |d: PoisonResult<&'s mut Cell3>| {
			let (d, p) = split(d);
			f(vec![(Pay::Mut(d), Some(p))], Some(p))
		})
	}
	fn debug(&self) -> String {
		format!("{:?}", self)
	}
	fn debug_to(&self, out: &mut dyn std::fmt::Write) -> std::fmt::Result {
		write!(out, "{:?}", self)
	}
}

impl Lk for PR {
	fn accessors(&self) -> u32 {
		let p = self.is_poisoned();
		if !p {
			self.clear_poison();
		}
		2
	}
	fn lock<'s>(&'s self, key: ThreadKey, mode: Mode) -> Box<dyn Held + 's> {
		match mode {
			Mode::Excl => {
				let (g, p) = split(self.lock(key));
				Box::new(HPW(Some(g), Some(p)))
			}
			Mode::Shared => {
				let (g, p) = split(self.read(key));
				Box::new(HPR(Some(g), Some(p)))
			}
		}
	}
	fn try_lock<'s>(&'s self, key: ThreadKey, mode: Mode) -> TryOut<'s> {
		match mode {
			Mode::Excl => match self.try_lock(key) {
				Ok(g) => TryOut::Ok(Box::new(HPW(Some(g), Some(false)))),
				Err(TryLockPoisonableError::Poisoned(e)) => {
					TryOut::Ok(Box::new(HPW(Some(e.into_inner()), Some(true))))
				}
				Err(TryLockPoisonableError::WouldBlock(k)) => TryOut::WouldBlock(k),
			},
			Mode::Shared => match self.try_read(key) {
				Ok(g) => TryOut::Ok(Box::new(HPR(Some(g), Some(false)))),
				Err(TryLockPoisonableError::Poisoned(e)) => {
					TryOut::Ok(Box::new(HPR(Some(e.into_inner()), Some(true))))
				}
				Err(TryLockPoisonableError::WouldBlock(k)) => TryOut::WouldBlock(k),
			},
		}
	}
	fn scoped<'s>(&'s self, key: KeyArg<'_>, mode: Mode, f: Body<'_, 's>) {
		match mode {
			Mode::Excl => scoped_call!(self, scoped_lock, key, |d: PoisonResult<&'s mut Cell3>| {
				let (d, p) = split(d);
				f(vec![(Pay::Mut(d), Some(p))], Some(p))
			}),
			Mode::Shared => scoped_call!(self, scoped_read, key, |d: PoisonResult<&'s Cell3>| {
				let (d, p) = split(d);
				f(vec![(Pay::Ref(d), Some(p))], Some(p))
			}),
		}
	}
	fn scoped_try<'s, 'k>(
		&'s self,
		key: KeyArg<'k>,
		mode: Mode,
		f: Body<'_, 's>,
	) -> Result<(), KeyArg<'k>> {
		match mode {
			Mode::Excl => {
				scoped_try_call!(self, scoped_try_lock, key, |d: PoisonResult<&'s mut Cell3>| {
					let (d, p) = split(d);
					f(vec![(Pay::Mut(d), Some(p))], Some(p))
				})
			}
			Mode::Shared => {
				scoped_try_call!(self, scoped_try_read, key, |d: PoisonResult<&'s Cell3>| {
					let (d, p) = split(d);
					f(vec![(Pay::Ref(d), Some(p))], Some(p))
				})
			}
		}
	}
	fn debug(&self) -> String {
		format!("{:?}", self)
	}
	fn debug_to(&self, out: &mut dyn std::fmt::Write) -> std::fmt::Result {
		write!(out, "{:?}", self)
	}
}

macro_rules! accessors_impl {
	(none, $elem:ty) => {
		fn accessors(&self) -> u32 {
			0
		}
	};
	(all, $elem:ty) => {
		fn accessors(&self) -> u32 {
			let c: &Vec<$elem> = self.child();
			let n1 = c.len();
			let n2 = self.iter().count();
			let n3 = self.into_iter().count();
			let s: &[$elem] = self.as_ref();
			assert!(n1 == n2 && n2 == n3 && n3 == s.len());
			4
		}
	};
}
macro_rules! lk_vec_m {
	($coll:ident, $hm:ident, $retry:expr, $acc:ident) => {
		impl Lk for $coll<Vec<M>> {
			accessors_impl!($acc, M);
			fn lock<'s>(&'s self, key: ThreadKey, _mode: Mode) -> Box<dyn Held + 's> {
				Box::new($hm(Some(self.lock(key)), None))
			}
			fn try_lock<'s>(&'s self, key: ThreadKey, _mode: Mode) -> TryOut<'s> {
				match self.try_lock(key) {
					Ok(g) => TryOut::Ok(Box::new($hm(Some(g), None))),
					Err(k) => TryOut::WouldBlock(k),
				}
			}
			fn scoped<'s>(&'s self, key: KeyArg<'_>, _mode: Mode, f: Body<'_, 's>) {
				scoped_call!(self, scoped_lock, key, |d: Box<[&'s mut Cell3]>| f(
					d.into_vec().into_iter().map(|c| (Pay::Mut(c), None)).collect(),
					None
				))
			}
			fn scoped_try<'s, 'k>(
				&'s self,
				key: KeyArg<'k>,
				_mode: Mode,
				f: Body<'_, 's>,
			) -> Result<(), KeyArg<'k>> {
				scoped_try_call!(self, scoped_try_lock, key, |d: Box<[&'s mut Cell3]>| f(
					d.into_vec().into_iter().map(|c| (Pay::Mut(c), None)).collect(),
					None
				))
			}
			fn debug(&self) -> String {
				format!("{:?}", self)
			}
			fn debug_to(&self, out: &mut dyn std::fmt::Write) -> std::fmt::Result {
				write!(out, "{:?}", self)
			}
			fn is_retry(&self) -> bool {
				$retry
			}
		}
	};
}
lk_vec_m!(OwnedLockCollection, HOwnedM, false, none);
lk_vec_m!(BoxedLockCollection, HBoxedM, false, all);
lk_vec_m!(RetryingLockCollection, HRetryM, true, all);

macro_rules! lk_vec_r {
	($coll:ident, $hw:ident, $hr:ident, $retry:expr, $acc:ident) => {
		impl Lk for $coll<Vec<R>> {
			accessors_impl!($acc, R);
			fn lock<'s>(&'s self, key: ThreadKey, mode: Mode) -> Box<dyn Held + 's> {
				match mode {
					Mode::Excl => Box::new($hw(Some(self.lock(key)), None)),
					Mode::Shared => Box::new($hr(Some(self.read(key)), None)),
				}
			}
			fn try_lock<'s>(&'s self, key: ThreadKey, mode: Mode) -> TryOut<'s> {
				match mode {
					Mode::Excl => match self.try_lock(key) {
						Ok(g) => TryOut::Ok(Box::new($hw(Some(g), None))),
						Err(k) => TryOut::WouldBlock(k),
					},
					Mode::Shared => match self.try_read(key) {
						Ok(g) => TryOut::Ok(Box::new($hr(Some(g), None))),
						Err(k) => TryOut::WouldBlock(k),
					},
				}
			}
			fn scoped<'s>(&'s self, key: KeyArg<'_>, mode: Mode, f: Body<'_, 's>) {
				match mode {
					Mode::Excl => scoped_call!(self, scoped_lock, key, |d: Box<[&'s mut Cell3]>| f(
						d.into_vec().into_iter().map(|c| (Pay::Mut(c), None)).collect(),
						None
					)),
					Mode::Shared => scoped_call!(self, scoped_read, key, |d: Box<[&'s Cell3]>| f(
						d.into_vec().into_iter().map(|c| (Pay::Ref(c), None)).collect(),
						None
					)),
				}
			}
			fn scoped_try<'s, 'k>(
				&'s self,
				key: KeyArg<'k>,
				mode: Mode,
				f: Body<'_, 's>,
			) -> Result<(), KeyArg<'k>> {
				match mode {
					Mode::Excl => {
						scoped_try_call!(self, scoped_try_lock, key, |d: Box<[&'s mut Cell3]>| f(
							d.into_vec().into_iter().map(|c| (Pay::Mut(c), None)).collect(),
							None
						))
					}
					Mode::Shared => {
						scoped_try_call!(self, scoped_try_read, key, |d: Box<[&'s Cell3]>| f(
							d.into_vec().into_iter().map(|c| (Pay::Ref(c), None)).collect(),
							None
						))
					}
				}
			}
			fn debug(&self) -> String {
				format!("{:?}", self)
			}
			fn debug_to(&self, out: &mut dyn std::fmt::Write) -> std::fmt::Result {
				write!(out, "{:?}", self)
			}
			fn is_retry(&self) -> bool {
				$retry
			}
		}
	};
}
lk_vec_r!(OwnedLockCollection, HOwnedW, HOwnedR, false, none);
lk_vec_r!(BoxedLockCollection, HBoxedW, HBoxedR, false, all);
lk_vec_r!(RetryingLockCollection, HRetryW, HRetryR, true, all);

fn flat_nested_mut<'s>(d: Box<[MData<'s>]>) -> Flat<'s> {
	let mut out = Vec::new();
	for m in d.into_vec() {
		flat_data_mut(m, &mut out);
	}
	conv(out)
}
fn flat_nested_ref<'s>(d: Box<[MDataRef<'s>]>) -> Flat<'s> {
	let mut out = Vec::new();
	for m in d.into_vec() {
		flat_data_ref(m, &mut out);
	}
	conv_ref(out)
}

macro_rules! lk_dyn {
	($ty:ty, $kind:expr, $retry:expr) => {
		impl<'a, 'b, 'r> Lk for $ty {
			fn accessors(&self) -> u32 {
				let c: &Vec<Member<'a, 'b>> = self.child();
				let n1 = c.len();
				let n2 = self.iter().count();
				let s: &[Member<'a, 'b>] = self.as_ref();
				assert!(n1 == n2 && n2 == s.len());
				3
			}
			fn lock<'s>(&'s self, key: ThreadKey, mode: Mode) -> Box<dyn Held + 's> {
				match mode {
					Mode::Excl => Box::new(HDynW(Some(self.lock(key)), $kind)),
					Mode::Shared => Box::new(HDynR(Some(self.read(key)), $kind)),
				}
			}
			fn try_lock<'s>(&'s self, key: ThreadKey, mode: Mode) -> TryOut<'s> {
				match mode {
					Mode::Excl => match self.try_lock(key) {
						Ok(g) => TryOut::Ok(Box::new(HDynW(Some(g), $kind))),
						Err(k) => TryOut::WouldBlock(k),
					},
					Mode::Shared => match self.try_read(key) {
						Ok(g) => TryOut::Ok(Box::new(HDynR(Some(g), $kind))),
						Err(k) => TryOut::WouldBlock(k),
					},
				}
			}
			fn scoped<'s>(&'s self, key: KeyArg<'_>, mode: Mode, f: Body<'_, 's>) {
				match mode {
					Mode::Excl => scoped_call!(self, scoped_lock, key, |d: Box<[MData<'s>]>| f(
						flat_nested_mut(d),
						None
					)),
					Mode::Shared => scoped_call!(self, scoped_read, key, |d: Box<[MDataRef<'s>]>| f(
						flat_nested_ref(d),
						None
					)),
				}
			}
			fn scoped_try<'s, 'k>(
				&'s self,
				key: KeyArg<'k>,
				mode: Mode,
				f: Body<'_, 's>,
			) -> Result<(), KeyArg<'k>> {
				match mode {
					Mode::Excl => {
						scoped_try_call!(self, scoped_try_lock, key, |d: Box<[MData<'s>]>| f(
							flat_nested_mut(d),
							None
						))
					}
					Mode::Shared => {
						scoped_try_call!(self, scoped_try_read, key, |d: Box<[MDataRef<'s>]>| f(
							flat_nested_ref(d),
							None
						))
					}
				}
			}
			fn debug(&self) -> String {
				format!("{:?}", self)
			}
			fn debug_to(&self, out: &mut dyn std::fmt::Write) -> std::fmt::Result {
				write!(out, "{:?}", self)
			}
			fn is_retry(&self) -> bool {
				$retry
			}
		}
	};
}
lk_dyn!(BoxedLockCollection<Vec<Member<'a, 'b>>>, DynKind::Boxed, false);
lk_dyn!(RefLockCollection<'r, Vec<Member<'a, 'b>>>, DynKind::Ref, false);
lk_dyn!(RetryingLockCollection<Vec<Member<'a, 'b>>>, DynKind::Retry, true);

macro_rules! lk_pois_dyn {
	($coll:ident, $retry:expr) => {
		impl<'a, 'b> Lk for Poisonable<$coll<Vec<Member<'a, 'b>>>> {
			fn is_retry(&self) -> bool {
				$retry
			}
	fn accessors(&self) -> u32 {
		let p = self.is_poisoned();
		if !p {
			self.clear_poison();
		}
		2
	}
	fn lock<'s>(&'s self, key: ThreadKey, mode: Mode) -> Box<dyn Held + 's> {
		match mode {
			Mode::Excl => {
				let (g, p) = split(self.lock(key));
				Box::new(HPDynW(Some(g), Some(p)))
			}
			Mode::Shared => {
				let (g, p) = split(self.read(key));
				Box::new(HPDynR(Some(g), Some(p)))
			}
		}
	}
	fn try_lock<'s>(&'s self, key: ThreadKey, mode: Mode) -> TryOut<'s> {
		match mode {
			Mode::Excl => match self.try_lock(key) {
				Ok(g) => TryOut::Ok(Box::new(HPDynW(Some(g), Some(false)))),
				Err(TryLockPoisonableError::Poisoned(e)) => {
					TryOut::Ok(Box::new(HPDynW(Some(e.into_inner()), Some(true))))
				}
				Err(TryLockPoisonableError::WouldBlock(k)) => TryOut::WouldBlock(k),
			},
			Mode::Shared => match self.try_read(key) {
				Ok(g) => TryOut::Ok(Box::new(HPDynR(Some(g), Some(false)))),
				Err(TryLockPoisonableError::Poisoned(e)) => {
					TryOut::Ok(Box::new(HPDynR(Some(e.into_inner()), Some(true))))
				}
				Err(TryLockPoisonableError::WouldBlock(k)) => TryOut::WouldBlock(k),
			},
		}
	}
	fn scoped<'s>(&'s self, key: KeyArg<'_>, mode: Mode, f: Body<'_, 's>) {
		match mode {
			Mode::Excl => {
				scoped_call!(self, scoped_lock, key, |d: PoisonResult<Box<[MData<'s>]>>| {
					let (d, p) = split(d);
					let fl = flat_nested_mut(d)
						.into_iter()
						.map(|(c, q)| (c, q.or(Some(p))))
						.collect();
					f(fl, Some(p))
				})
			}
			Mode::Shared => {
				scoped_call!(self, scoped_read, key, |d: PoisonResult<Box<[MDataRef<'s>]>>| {
					let (d, p) = split(d);
					let fl = flat_nested_ref(d)
						.into_iter()
						.map(|(c, q)| (c, q.or(Some(p))))
						.collect();
					f(fl, Some(p))
				})
			}
		}
	}
	fn scoped_try<'s, 'k>(
		&'s self,
		key: KeyArg<'k>,
		mode: Mode,
		f: Body<'_, 's>,
	) -> Result<(), KeyArg<'k>> {
		match mode {
			Mode::Excl => scoped_try_call!(
				self,
				scoped_try_lock,
				key,
				|d: PoisonResult<Box<[MData<'s>]>>| {
					let (d, p) = split(d);
					let fl = flat_nested_mut(d)
						.into_iter()
						.map(|(c, q)| (c, q.or(Some(p))))
						.collect();
					f(fl, Some(p))
				}
			),
			Mode::Shared => scoped_try_call!(
				self,
				scoped_try_read,
				key,
				|d: PoisonResult<Box<[MDataRef<'s>]>>| {
					let (d, p) = split(d);
					let fl = flat_nested_ref(d)
						.into_iter()
						.map(|(c, q)| (c, q.or(Some(p))))
						.collect();
					f(fl, Some(p))
				}
			),
		}
	}
	fn debug(&self) -> String {
		format!("{:?}", self)
	}
	fn debug_to(&self, out: &mut dyn std::fmt::Write) -> std::fmt::Result {
		write!(out, "{:?}", self)
	}
}
	};
}
lk_pois_dyn!(BoxedLockCollection, false);
lk_pois_dyn!(RetryingLockCollection, true);
