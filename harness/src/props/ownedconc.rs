//! Concurrent episodes over an owned collection whose LISTING order differs from the ADDRESS
//! order of its members (members are `&mut` borrows listed in reverse).  The same unit is locked
//! directly and through sorting / retrying collections that contain it by reference, reading and
//! writing, by 2-3 threads under the seeded scheduler.  Serves C01 (deadlock), C08 (the unit is
//! indivisible), C02/C05 incidentally.
use std::sync::Arc;

use happylock::collection::{
	BoxedLockCollection, OwnedLockCollection, RefLockCollection, RetryingLockCollection,
};
use happylock::ThreadKey;

use crate::arena::*;
use crate::exec::{guarded, Unwound};
use crate::json::J;
use crate::props::conc::{policy_of, strategy_of};
use crate::report::*;
use crate::rng::{hash64, Rng};
use crate::world::*;

fn reg_r(w: &Arc<World>, key: &mut ThreadKey) -> (R, LockId) {
	let id = w.add_lock(true);
	let r = R::new(Cell3::new(id));
	set_reg_tag(Some(id));
	let _ = r.scoped_try_read(&mut *key, |_| ());
	set_reg_tag(None);
	(r, id)
}

/// what one thread does with the shared owned unit `(c, a)` and the free lock `b`
#[derive(Clone, Copy, Debug)]
enum Use {
	Direct,
	BoxedRef,
	RefNew,
	BoxedWithB,
	RetryWithB,
	OnlyB,
}
const USES: [Use; 6] = [Use::Direct, Use::BoxedRef, Use::RefNew, Use::BoxedWithB, Use::RetryWithB, Use::OnlyB];

pub fn run(cfg: &RunCfg) -> Report {
	let items = ((if cfg.thorough { 40_000.0 } else { 3_000.0 }) * cfg.scale) as u64;
	let (mut rep, _) = par_run(cfg, items, |i, rep| {
		let mut r = Rng::new(hash64(cfg.seed ^ 0x0CE0, i / 8));
		let nthreads = r.range(2, 3);
		let plan: Vec<(Use, bool)> = (0..nthreads).map(|_| (*r.pick(&USES), r.chance(1, 2))).collect();
		let sched = i % 8;
		let w = World::new(WorldCfg {
			exec: ExecMode::Baton,
			policy: policy_of(sched),
			strategy: strategy_of(sched / 2),
			nthreads: nthreads + 1,
			seed: hash64(cfg.seed, i),
			budget1: 2000,
			budget2: 2000,
			keep_log: cfg.only.is_some(),
		});
		let main_tid = nthreads;
		set_current(Some((w.clone(), main_tid)));
		let mut key = ThreadKey::get().expect("controller key");
		let (a, ida) = reg_r(&w, &mut key);
		let (b, _idb) = reg_r(&w, &mut key);
		let (c, idc) = reg_r(&w, &mut key);
		drop(key);
		let mut arr = [a, b, c];
		{
			let mut g = w.g();
			g.threads[main_tid as usize].status = Status::Finished;
			// the owned unit is one group for the C09 monitor
			g.group[idc as usize] = ida;
		}
		{
			let [ma, mb, mc] = &mut arr;
			// listing order (c, a) is the reverse of the address order (a < c)
			let owned = OwnedLockCollection::new((mc, ma));
			let owned = &owned;
			let bref: &R = mb;
			std::thread::scope(|s| {
				for (tid, (u, read)) in plan.iter().enumerate() {
					let w = w.clone();
					let (u, read) = (*u, *read);
					s.spawn(move || {
						let tid = tid as Tid;
						set_current(Some((w.clone(), tid)));
						let res = guarded(|| {
							w.thread_start(tid);
							let key = ThreadKey::get().expect("thread key");
							macro_rules! go {
								($c:expr) => {{
									let c = $c;
									w.begin_call(tid, Class::Acquire, "ownedconc.lock", false);
									if read {
										let g = c.read(key);
										w.end_call(tid);
										w.yield_point(tid);
										drop(g);
									} else {
										let g = c.lock(key);
										w.end_call(tid);
										w.yield_point(tid);
										drop(g);
									}
								}};
							}
							match u {
								Use::Direct => go!(owned),
								Use::BoxedRef => go!(BoxedLockCollection::new_ref(owned)),
								Use::RefNew => go!(RefLockCollection::new(owned)),
								Use::BoxedWithB => go!(BoxedLockCollection::try_new((owned, bref)).expect("distinct")),
								Use::RetryWithB => go!(RetryingLockCollection::try_new((bref, owned)).expect("distinct")),
								Use::OnlyB => {
									w.begin_call(tid, Class::Acquire, "ownedconc.lock", false);
									let g = bref.write(key);
									w.end_call(tid);
									w.yield_point(tid);
									drop(g);
								}
							}
						});
						match res {
							Ok(()) | Err(Unwound::Abort) => {}
							Err(Unwound::Other(m)) => w.violate("C01", "unexpected_panic", format!("thread {tid}: {m}")),
							Err(_) => {}
						}
						w.thread_finish(tid);
						set_current(None);
					});
				}
				w.kickoff(nthreads);
				w.wait_done();
			});
		}
		set_current(None);
		let g = w.g();
		rep.evaluations += 1;
		rep.count("blocked_acquires", g.stats.blocked_acquires);
		rep.count("thread_switches", g.stats.switches);
		let case = format!("owned=(c,a) listed against address order; threads: {:?} policy={:?}", plan, policy_of(sched));
		match &g.aborted {
			None => rep.count("episodes_completed", 1),
			Some(Abort::Deadlock) | Some(Abort::SelfWait) => rep.count("episodes_deadlocked", 1),
			Some(Abort::Budget) => rep.violations.push(VRec {
				prop: "C01".into(),
				rule: "no_progress_under_fair_schedule".into(),
				detail: "step budget exhausted".into(),
				signature: "C01:no_progress_under_fair_schedule".into(),
				case: case.clone(),
				index: i,
				log: vec![],
			}),
			Some(Abort::Harness(m)) => rep.inconclusive.push(format!("item {i}: {m}")),
		}
		if g.stats.blocked_acquires > 0 {
			rep.nontrivial.insert(hash64(i / 8, g.trace_hash));
		}
		if rep.samples.len() < 2 && g.stats.blocked_acquires > 0 {
			rep.samples.push(J::obj(vec![("index", J::u(i)), ("case", J::s(&case)), ("blocked_acquires", J::u(g.stats.blocked_acquires))]));
		}
		for v in &g.violations {
			rep.violations.push(VRec {
				prop: v.prop.into(),
				rule: v.rule.into(),
				detail: v.detail.clone(),
				signature: sig_of(v),
				case: case.clone(),
				index: i,
				log: g.log.iter().rev().take(80).rev().map(ev_to_string).collect(),
			});
		}
	});
	rep.rule = "2-3 threads use one owned collection whose members are listed against their address order - directly, through Boxed::new_ref / Ref::new over it, next to another lock in boxed and retrying collections, or they lock only that other lock - reading or writing, under 8 schedules (both wake policies, random and priority strategies) per plan; oracle: the World's deadlock / self-wait monitor and release audit; non-trivial = an acquire blocked; distinct = distinct (plan, schedule trace)".into();
	rep
}
