//! Concurrent episode family: serves C01, C02, C03 (concurrent part), C05, C09, C11.
use crate::episode::*;
use crate::json::J;
use crate::prog::*;
use crate::report::*;
use crate::rng::{hash64, Rng};
use crate::world::*;

pub struct ConcPlan {
	pub programs: u64,
	pub schedules: u64,
	pub gen: GenCfg,
	pub label: &'static str,
	/// one clean raw-lock panic per episode (thread and raw-op index drawn per item)
	pub faults: bool,
}

pub fn policy_of(i: u64) -> Policy {
	if i % 2 == 0 {
		Policy::ReaderPref
	} else {
		Policy::WriterPref
	}
}

pub fn strategy_of(s: u64) -> Strategy {
	if s % 2 == 0 {
		Strategy::Random
	} else {
		Strategy::Pct(1 + ((s / 2) % 3) as u32)
	}
}

pub fn run(cfg: &RunCfg, plan: &ConcPlan) -> Report {
	let per_prog = plan.schedules * 2;
	let items = plan.programs * per_prog;
	let (mut rep, done) = par_run(cfg, items, |i, rep| {
		let p = i / per_prog;
		let rest = i % per_prog;
		let s = rest / 2;
		let policy = policy_of(rest);
		let mut r = Rng::new(hash64(cfg.seed ^ 0xC0C0, p));
		let prog = gen_program(&mut r, &plan.gen);
		let ec = EpCfg {
			policy,
			strategy: strategy_of(s),
			seed: hash64(hash64(cfg.seed, p), rest),
			budget1: 3000,
			budget2: 3000,
			keep_log: cfg.only.is_some(),
			try_max: 60,
			poison_model: plan.gen.allow_panic,
			fault: if plan.faults {
				let mut fr = Rng::new(hash64(cfg.seed ^ 0xFA17, i));
				Some((fr.below(prog.threads.len() as u32), fr.below(14)))
			} else {
				None
			},
		};
		let res = run_concurrent(&prog, &ec);
		rep.evaluations += 1;
		rep.count("raw_ops", res.stats.raw_ops);
		rep.count("blocked_acquires", res.stats.blocked_acquires);
		rep.count("failed_tries", res.stats.failed_tries);
		rep.count("thread_switches", res.stats.switches);
		rep.count("shared_section_overlaps", res.stats.shared_overlaps);
		rep.count("sections", res.stats.sections);
		rep.count("acquisitions", res.tstats.acquisitions);
		rep.count("try_given_up", res.tstats.given_up);
		rep.count("closures_run", res.tstats.closures);
		rep.count("nonacq_calls", res.tstats.nonacq_calls);
		rep.count("panics_injected", res.tstats.panics_injected);
		rep.count("acquisitions_made_during_an_unwind", res.tstats.in_unwind);
		rep.count("raw_lock_faults_fired", res.stats.faults_fired);
		rep.count("final_payloads_checked", res.final_versions_checked as u64);
		match &res.aborted {
			None => rep.count("episodes_completed", 1),
			Some(Abort::Budget) => {
				rep.count("episodes_budget_exhausted", 1);
				// no completion within the fair phase: violation candidate (C01/C09)
				rep.violations.push(VRec {
					prop: "C01".into(),
					rule: "no_progress_under_fair_schedule".into(),
					detail: format!("step budget {}+{} exhausted; {}", ec.budget1, ec.budget2, res.deadlock_witness),
					signature: "C01:no_progress_under_fair_schedule".into(),
					case: program_desc(&prog),
					index: i,
					log: tail(&res.log),
				});
				if program_desc(&prog).contains("retry") || program_desc(&prog).contains("Retry") {
					rep.violations.push(VRec {
						prop: "C09".into(),
						rule: "retrying_acquisition_did_not_complete".into(),
						detail: format!("step budget {}+{} exhausted in a program with retrying acquisitions", ec.budget1, ec.budget2),
						signature: "C09:retrying_acquisition_did_not_complete".into(),
						case: program_desc(&prog),
						index: i,
						log: tail(&res.log),
					});
				}
			}
			Some(Abort::Deadlock) | Some(Abort::SelfWait) => rep.count("episodes_deadlocked", 1),
			Some(Abort::Harness(m)) => rep.inconclusive.push(format!("item {i}: harness abort: {m}")),
		}
		if res.contended() {
			rep.nontrivial.insert(hash64(program_hash(&prog), res.trace_hash));
			rep.count("contended_episodes", 1);
		}
		if cfg.only.is_some() || (rep.samples.len() < 3 && res.contended()) {
			rep.samples.push(J::obj(vec![
				("index", J::u(i)),
				("program", J::s(program_desc(&prog))),
				("policy", J::s(format!("{:?}", policy))),
				("strategy", J::s(format!("{:?}", ec.strategy))),
				("blocked_acquires", J::u(res.stats.blocked_acquires)),
				("failed_tries", J::u(res.stats.failed_tries)),
				("switches", J::u(res.stats.switches)),
				("raw_ops", J::u(res.stats.raw_ops)),
				("trace_hash", J::s(format!("{:016x}", res.trace_hash))),
			]));
		}
		for v in &res.violations {
			rep.violations.push(VRec {
				prop: v.prop.into(),
				rule: v.rule.into(),
				detail: v.detail.clone(),
				signature: sig_of(v),
				case: format!("{} || policy={:?} strategy={:?}", program_desc(&prog), policy, ec.strategy),
				index: i,
				log: tail(&res.log),
			});
		}
		if cfg.verbose {
			eprintln!("item {i}: {}\n  -> aborted={:?} stats={:?}", program_desc(&prog), res.aborted, res.stats);
			for l in &res.log {
				eprintln!("    {l}");
			}
		}
	});
	rep.count("items_planned", items);
	rep.count("items_done", done);
	rep.rule = format!(
		"{}: seeded generator of small programs (2-4 threads x 1-3 acquisitions over 2-5 leaf locks + owned/boxed/retrying units, nested collections, all API flavours) x {} schedules x 2 wake policies; an episode is non-trivial iff it contained contention (a blocked acquire, a failed try or overlapping shared sections); distinct = distinct (program, schedule-trace-hash) pairs among those",
		plan.label, plan.schedules
	);
	rep
}

fn tail(log: &[String]) -> Vec<String> {
	let n = log.len();
	log[n.saturating_sub(120)..].to_vec()
}
