//! Quiescent try_* family (solo mode, phantom holders): serves C13 (outcome exactness) and the
//! try / rollback part of C04.
use crate::arena::*;
use crate::exec::*;
use crate::json::J;
use crate::prog::*;
use crate::report::*;
use crate::rng::{hash64, hash_str};
use crate::solo::*;
use crate::world::*;

#[derive(Clone, Copy, PartialEq, Eq, Debug)]
pub enum Hold {
	Free,
	Read,
	Write,
}

pub fn assignments(rw: &[bool]) -> Vec<Vec<Hold>> {
	let mut out = vec![vec![]];
	for is_rw in rw {
		let mut next = Vec::new();
		for a in &out {
			for h in [Hold::Free, Hold::Read, Hold::Write] {
				if h == Hold::Read && !*is_rw {
					continue;
				}
				let mut b = a.clone();
				b.push(h);
				next.push(b);
			}
		}
		out = next;
	}
	out
}

pub fn place(w: &World, ids: &[LockId], asg: &[Hold], auto_release: bool) {
	w.phantom_release_all();
	for (k, (id, h)) in ids.iter().zip(asg).enumerate() {
		match h {
			Hold::Free => {}
			Hold::Read => w.phantom_hold(*id, Mode::Shared, k as u32, auto_release),
			Hold::Write => w.phantom_hold(*id, Mode::Excl, k as u32, auto_release),
		}
	}
}

pub fn asg_str(a: &[Hold]) -> String {
	a.iter()
		.map(|h| match h {
			Hold::Free => '-',
			Hold::Read => 'r',
			Hold::Write => 'W',
		})
		.collect()
}

pub fn run(cfg: &RunCfg) -> Report {
	run_fam(cfg, false)
}

/// blocking = false: quiescent try family (C13, C04 try part)
/// blocking = true : blocking acquisitions against auto-releasing phantom holders
///                   (C04 blocking part, C03 sequential, C02 routing per member position, C09)
pub fn run_fam(cfg: &RunCfg, blocking: bool) -> Report {
	let max_n = if cfg.thorough { 4 } else { 3 };
	let mut shapes: Vec<(ArenaSpec, Target, usize)> = Vec::new();
	for fam in Fam::ALL {
		for n in 0..=max_n {
			for (a, t) in enum_shapes(n, fam, cfg.thorough || n <= 3) {
				shapes.push((a, t, n));
			}
		}
	}
	let apis: Vec<(Api, bool)> = if blocking {
		vec![(Api::Guard, false), (Api::GuardUnlock, false), (Api::Scoped, false), (Api::Scoped, true)]
	} else {
		vec![(Api::TryLoop, false), (Api::ScopedTry, false), (Api::ScopedTry, true)]
	};
	let apis = &apis;
	let (mut rep, _) = par_run(cfg, shapes.len() as u64, |i, rep| {
		let (arena_spec, target, _n) = &shapes[i as usize];
		for policy in [Policy::ReaderPref, Policy::WriterPref] {
			let readable = target_readable(arena_spec, target);
			let keep_log = cfg.only.is_some();
			let (_, out) = solo(arena_spec, policy, keep_log, |tc| {
				let w = tc.w.clone();
				let ids = expected_ids(tc.arena, target);
				let rw: Vec<bool> = ids.iter().map(|id| is_rw(&w, *id)).collect();
				let mut local = Vec::new();
				let mut case_no = i;
				for asg in assignments(&rw) {
					for mode in [Mode::Excl, Mode::Shared] {
						if mode == Mode::Shared && !readable {
							continue;
						}
						for &(api, lent) in apis.iter() {
							place(&w, &ids, &asg, blocking);
							let before = w.snapshot();
							// a third of the cases are run from a destructor during an unrelated unwind
							case_no += 1;
							let acq = Acq {
								target: target.clone(),
								mode,
								api,
								lent,
								panic: false,
								unwind: hash64(case_no, 0x5EED) % 3 == 0,
							};
							tc.try_max = 1;
							tc.outcomes.clear();
							tc.run_acq(&acq);
							if acq.unwind && hash64(case_no, 0xC1EA) % 2 == 0 {
								// guards dropped during the unwind poisoned the wrappers: un-poison every
								// other time so that both states keep being exercised
								for leaf in tc.arena.leaves.iter() {
									match leaf {
										Leaf::PM(p) => p.clear_poison(),
										Leaf::PR(p) => p.clear_poison(),
										_ => {}
									}
								}
							}
							if blocking {
								// the key that came back must re-acquire the very same locks at once
								let acq = Acq { unwind: hash64(case_no, 0x5EED) % 3 == 1, ..acq.clone() };
								tc.run_acq(&acq);
								if tc.outcomes != vec![true, true] {
									w.violate(
										"C04",
										"blocking_acquisition_did_not_complete",
										format!("{} holds={}: outcomes {:?}", acq_desc(&acq), asg_str(&asg), tc.outcomes),
									);
								}
								local.push((0u64, true, String::new()));
								continue;
							}
							let after = w.snapshot();
							let want = match mode {
								Mode::Excl => asg.iter().all(|h| *h == Hold::Free),
								Mode::Shared => asg.iter().all(|h| *h != Hold::Write),
							};
							let got = tc.outcomes.clone();
							let case = format!("{} holds={} policy={:?}", acq_desc(&acq), asg_str(&asg), policy);
							if got != vec![want] {
								w.violate(
									"C13",
									"try_outcome_mismatch",
									format!("{case}: outcome {:?}, oracle says {}", got, want),
								);
							}
							if before != after {
								w.violate(
									"C13",
									if want { "success_not_undone_by_drop" } else { "failed_try_changed_hold_state" },
									format!("{case}: owner table differs after the attempt"),
								);
							}
							local.push((hash_str(&case), asg.iter().any(|h| *h != Hold::Free) || ids.len() >= 2, case));
						}
					}
				}
				w.phantom_release_all();
				local
			});
			rep.count("solo_episodes", 1);
			rep.count("raw_ops", out.stats.raw_ops);
			rep.count("acquisitions_made_during_an_unwind", out.tstats.in_unwind);
			rep.count("failed_raw_tries", out.stats.failed_tries);
			if let Some(a) = &out.aborted {
				match a {
					// already recorded by the World as a C01 self_wait violation
					Abort::SelfWait => {}
					Abort::Deadlock if blocking => rep.violations.push(VRec {
						prop: "C04".into(),
						rule: "blocking_acquisition_did_not_complete".into(),
						detail: format!("the single thread blocked for good: {}", out.deadlock_witness),
						signature: "C04:blocking_acquisition_did_not_complete".into(),
						case: format!("{} {}", arena_desc(arena_spec), target_desc(target)),
						index: i,
						log: out.log.iter().rev().take(60).rev().cloned().collect(),
					}),
					Abort::Deadlock => rep.violations.push(VRec {
						prop: "C04".into(),
						rule: "try_call_blocked".into(),
						detail: format!("a try_* call blocked: {}", out.deadlock_witness),
						signature: "C04:try_call_blocked".into(),
						case: format!("{} {}", arena_desc(arena_spec), target_desc(target)),
						index: i,
						log: out.log.iter().rev().take(60).rev().cloned().collect(),
					}),
					_ => rep.inconclusive.push(format!("shape {i} aborted: {:?} {}", a, out.deadlock_witness)),
				}
			}
			if let Some(m) = &out.unwound {
				rep.violations.push(VRec {
					prop: "C13".into(),
					rule: "unexpected_panic".into(),
					detail: m.clone(),
					signature: "C13:unexpected_panic".into(),
					case: format!("{} {}", arena_desc(arena_spec), target_desc(target)),
					index: i,
					log: out.log.clone(),
				});
			}
			for v in &out.violations {
				rep.violations.push(VRec {
					prop: v.prop.into(),
					rule: v.rule.into(),
					detail: v.detail.clone(),
					signature: sig_of(v),
					case: format!("{} {}", arena_desc(arena_spec), target_desc(target)),
					index: i,
					log: out.log.iter().rev().take(60).rev().cloned().collect(),
				});
			}
		}
		// count cases (once, not per policy) by re-deriving them cheaply
		let (cases, _) = solo(arena_spec, Policy::ReaderPref, false, |tc| {
			let w = tc.w.clone();
			let ids = expected_ids(tc.arena, target);
			let rw: Vec<bool> = ids.iter().map(|id| is_rw(&w, *id)).collect();
			let readable = target_readable(arena_spec, target);
			let mut v = Vec::new();
			for asg in assignments(&rw) {
				for mode in [Mode::Excl, Mode::Shared] {
					if mode == Mode::Shared && !readable {
						continue;
					}
					for &(api, lent) in apis.iter() {
						let h = hash64(hash64(hash_str(&target_desc(target)), hash_str(&arena_desc(arena_spec))), hash_str(&format!("{}{:?}{:?}{}", asg_str(&asg), mode, api, lent)));
						v.push((h, asg.iter().any(|h| *h != Hold::Free) || ids.len() >= 2, asg_str(&asg), mode, api, lent));
					}
				}
			}
			v
		});
		for (h, nontrivial, asg, mode, api, lent) in cases.unwrap_or_default() {
			rep.evaluations += 2;
			if nontrivial {
				rep.nontrivial.insert(h);
			}
			if rep.samples.len() < 3 && nontrivial && (h % 97 == 0) {
				rep.samples.push(J::obj(vec![
					("arena", J::s(arena_desc(arena_spec))),
					("target", J::s(target_desc(target))),
					("pre_held", J::s(asg)),
					("mode", J::s(format!("{:?}", mode))),
					("api", J::s(format!("{}{}", api.name(), if lent { ":lent" } else { "" }))),
				]));
			}
		}
	});
	rep.exhaustive = cfg.only.is_none();
	rep.count("shapes", shapes.len() as u64);
	if blocking {
		rep.rule = format!("enumeration as in the try family (families x sizes 0..{max_n} x every shape x every assignment of {{free, read-held, write-held}}) but through the blocking APIs {{guard+drop, guard+unlock, scoped owned key, scoped lent key}}; phantom holders release when the caller blocks on them (this is what moves the retrying collection's first_index); every acquisition is performed twice in a row (immediate re-acquisition with the key that came back); both wake policies; a third of the first and a third of the second acquisitions are made from a destructor that runs during an unrelated unwind (thread::panicking() is true throughout)");
		return rep;
	}
	rep.rule = format!(
		"exhaustive enumeration: leaf families {{R, M, Poisonable<R>, Poisonable<M>, mixed}} x sizes 0..{max_n} x every shape (single lock; boxed/ref/retrying collection in every arrangement; poisonable-wrapped collection; every 2-level nesting split; owned/boxed/retrying units directly and nested) x every assignment of {{free, read-held, write-held by a phantom holder}} to the leaves x {{try_lock, try_read}} x {{try, scoped_try owned key, scoped_try lent key}} x both wake policies, quiescent (no waiters); every third case is run from a destructor during an unrelated unwind (guards dropped there poison Poisonable wrappers, which are un-poisoned every other time, so both wrapper states are exercised); a case is non-trivial iff some leaf is pre-held or the shape has >= 2 leaves; distinct = distinct (shape, assignment, mode, api)"
	);
	rep
}
