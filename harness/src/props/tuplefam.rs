//! Static catalogue under the audit locks: happylock's OWN container impls of
//! Lockable / Sharable (tuples of arity 1..7, arrays, Box<[T]>, &T, &mut T, nested owned
//! collections) through every collection kind.  Serves C04 (exactly the leaves, all-or-nothing),
//! C02 (position i is member i), C03/C05 (release), C13 (try outcome per pre-held position).
use happylock::collection::{
	BoxedLockCollection, LockGuard, OwnedLockCollection, RefLockCollection, RetryingLockCollection,
};
use happylock::poisonable::{PoisonRef, PoisonResult, Poisonable};
use happylock::ThreadKey;

use crate::arena::*;
use crate::exec::Tc;
use crate::json::J;
use crate::report::*;
use crate::rng::hash_str;
use crate::solo::*;
use crate::world::*;

/// lock ids reachable through a guard / data value, in declared order
pub trait FlatIds {
	fn flat_ids(&self, out: &mut Vec<LockId>);
}
impl FlatIds for Cell3 {
	fn flat_ids(&self, out: &mut Vec<LockId>) {
		out.push(self.lock_id)
	}
}
impl FlatIds for &Cell3 {
	fn flat_ids(&self, out: &mut Vec<LockId>) {
		out.push(self.lock_id)
	}
}
impl FlatIds for &mut Cell3 {
	fn flat_ids(&self, out: &mut Vec<LockId>) {
		out.push(self.lock_id)
	}
}
impl FlatIds for MRef<'_> {
	fn flat_ids(&self, out: &mut Vec<LockId>) {
		out.push(self.lock_id)
	}
}
impl FlatIds for WRef<'_> {
	fn flat_ids(&self, out: &mut Vec<LockId>) {
		out.push(self.lock_id)
	}
}
impl FlatIds for RRef<'_> {
	fn flat_ids(&self, out: &mut Vec<LockId>) {
		out.push(self.lock_id)
	}
}
impl<G: FlatIds> FlatIds for PoisonRef<'_, G> {
	fn flat_ids(&self, out: &mut Vec<LockId>) {
		(**self).flat_ids(out)
	}
}
impl<G: FlatIds> FlatIds for PoisonResult<G> {
	fn flat_ids(&self, out: &mut Vec<LockId>) {
		match self {
			Ok(g) => g.flat_ids(out),
			Err(e) => e.get_ref().flat_ids(out),
		}
	}
}
impl<G: FlatIds> FlatIds for LockGuard<G> {
	fn flat_ids(&self, out: &mut Vec<LockId>) {
		(**self).flat_ids(out)
	}
}
impl<G: FlatIds> FlatIds for Box<[G]> {
	fn flat_ids(&self, out: &mut Vec<LockId>) {
		for g in self.iter() {
			g.flat_ids(out)
		}
	}
}
impl<G: FlatIds, const N: usize> FlatIds for [G; N] {
	fn flat_ids(&self, out: &mut Vec<LockId>) {
		for g in self.iter() {
			g.flat_ids(out)
		}
	}
}
macro_rules! flat_tuple {
	($($g:ident $i:tt),+) => {
		impl<$($g: FlatIds),+> FlatIds for ($($g,)+) {
			fn flat_ids(&self, out: &mut Vec<LockId>) {
				$(self.$i.flat_ids(out);)+
			}
		}
	};
}
flat_tuple!(A 0);
flat_tuple!(A 0, B 1);
flat_tuple!(A 0, B 1, C 2);
flat_tuple!(A 0, B 1, C 2, D 3);
flat_tuple!(A 0, B 1, C 2, D 3, E 4);
flat_tuple!(A 0, B 1, C 2, D 3, E 4, F 5);
flat_tuple!(A 0, B 1, C 2, D 3, E 4, F 5, G 6);

// ---- zero-sized payloads ("lock as a token": Mutex<()>, the forks of the dining philosophers).
// A zero-sized value cannot name its lock, so position checks are switched off for these shapes;
// everything else (holds exactly the leaves, try outcomes, closure holds, release) applies.
#[derive(Debug, Default)]
pub struct Z;
pub type ZM = happylock::mutex::Mutex<Z, crate::audit::AuditMutex>;
pub type ZR = happylock::rwlock::RwLock<Z, crate::audit::AuditRwLock>;
thread_local! {
	static ROUTE_CHECK: std::cell::Cell<bool> = const { std::cell::Cell::new(true) };
}
fn route_check() -> bool {
	ROUTE_CHECK.with(|c| c.get())
}
macro_rules! flat_nothing {
	($($t:ty),+) => {$(
		impl FlatIds for $t {
			fn flat_ids(&self, _out: &mut Vec<LockId>) {}
		}
	)+};
}
flat_nothing!(
	Z,
	&Z,
	&mut Z,
	happylock::mutex::MutexRef<'_, Z, crate::audit::AuditMutex>,
	happylock::mutex::MutexGuard<'_, Z, crate::audit::AuditMutex>,
	happylock::rwlock::RwLockWriteRef<'_, Z, crate::audit::AuditRwLock>,
	happylock::rwlock::RwLockReadRef<'_, Z, crate::audit::AuditRwLock>,
	happylock::rwlock::RwLockWriteGuard<'_, Z, crate::audit::AuditRwLock>,
	happylock::rwlock::RwLockReadGuard<'_, Z, crate::audit::AuditRwLock>
);
pub fn mk_zm(tc: &mut Tc<'_>) -> (ZM, LockId) {
	let id = tc.w.add_lock(false);
	let m = ZM::new(Z);
	tc.w.begin_setup();
	set_reg_tag(Some(id));
	let mut k = tc.key.take().or_else(ThreadKey::get).expect("key");
	let _ = m.scoped_try_lock(&mut k, |_| ());
	tc.key = Some(k);
	set_reg_tag(None);
	tc.w.end_setup();
	(m, id)
}
pub fn mk_zr(tc: &mut Tc<'_>) -> (ZR, LockId) {
	let id = tc.w.add_lock(true);
	let r = ZR::new(Z);
	tc.w.begin_setup();
	set_reg_tag(Some(id));
	let mut k = tc.key.take().or_else(ThreadKey::get).expect("key");
	let _ = r.scoped_try_read(&mut k, |_| ());
	tc.key = Some(k);
	set_reg_tag(None);
	tc.w.end_setup();
	(r, id)
}

struct Cx<'t, 'a> {
	tc: &'t mut Tc<'a>,
	cases: u64,
	label: String,
}

pub fn mk_m(tc: &mut Tc<'_>) -> (M, LockId) {
	let id = tc.w.add_lock(false);
	let m = M::new(Cell3::new(id));
	tc.w.begin_setup();
	set_reg_tag(Some(id));
	let mut k = tc.key.take().or_else(ThreadKey::get).expect("key");
	let _ = m.scoped_try_lock(&mut k, |_| ());
	tc.key = Some(k);
	set_reg_tag(None);
	tc.w.end_setup();
	(m, id)
}
pub fn mk_r(tc: &mut Tc<'_>) -> (R, LockId) {
	let id = tc.w.add_lock(true);
	let r = R::new(Cell3::new(id));
	tc.w.begin_setup();
	set_reg_tag(Some(id));
	let mut k = tc.key.take().or_else(ThreadKey::get).expect("key");
	let _ = r.scoped_try_read(&mut k, |_| ());
	tc.key = Some(k);
	set_reg_tag(None);
	tc.w.end_setup();
	(r, id)
}

fn want(w: &World, ids: &[LockId], mode: Mode) -> Vec<(LockId, Mode)> {
	let mut v: Vec<(LockId, Mode)> = ids
		.iter()
		.map(|id| (*id, if w.g().locks[*id as usize].is_rw { mode } else { Mode::Excl }))
		.collect();
	v.sort();
	v
}

fn held_sorted(w: &World) -> Vec<(LockId, Mode)> {
	let mut v = w.held(0);
	v.sort();
	v
}

/// Exercise one collection value through lock / try_lock / scoped_lock / scoped_try_lock
/// (and the read variants when `$readable`), with every single position pre-held for the try
/// paths.  `$c` is any of the four collection types over any static shape.
macro_rules! exercise {
	($cx:expr, $c:expr, $ids:expr, $readable:expr) => {{
		let c = &$c;
		let ids: Vec<LockId> = $ids.clone();
		let w = $cx.tc.w.clone();
		let label = $cx.label.clone();
		let v = |rule: &'static str, prop: &'static str, d: String| w.violate(prop, rule, format!("{label}: {d}"));
		for mode in [Mode::Excl, Mode::Shared] {
			if mode == Mode::Shared && !$readable {
				continue;
			}
			// ---- blocking guard
			let key = $cx.tc.key.take().or_else(ThreadKey::get).expect("key");
			w.begin_call(0, Class::Acquire, "static.lock", false);
			let mut got = Vec::new();
			let key = exercise!(@guard c, key, mode, lock, read, w, ids, got, v, "guard");
			// ---- try with nothing held
			let key = {
				w.begin_call(0, Class::TryAcquire, "static.try", false);
				exercise!(@try c, key, mode, w, ids, v, true, "free")
			};
			// ---- try with each single position pre-held by a phantom
			let mut key = key;
			for k in 0..ids.len() {
				for hold in [Mode::Excl, Mode::Shared] {
					let is_rw = w.g().locks[ids[k] as usize].is_rw;
					if hold == Mode::Shared && !is_rw {
						continue;
					}
					w.phantom_hold(ids[k], hold, k as u32, false);
					let expect_ok = mode == Mode::Shared && hold == Mode::Shared;
					w.begin_call(0, Class::TryAcquire, "static.try", false);
					key = exercise!(@try c, key, mode, w, ids, v, expect_ok, "held");
					w.phantom_release_all();
				}
			}
			// ---- scoped
			let mut key = key;
			{
				let seen = std::cell::RefCell::new(Vec::new());
				let inside = std::cell::Cell::new(0u32);
				w.begin_call(0, Class::Acquire, "static.scoped", false);
				match mode {
					Mode::Excl => c.scoped_lock(&mut key, |d| {
						inside.set(inside.get() + 1);
						d.flat_ids(&mut seen.borrow_mut());
						if held_sorted(&w) != want(&w, &ids, Mode::Excl) {
							v("closure_without_all_holds", "C02", format!("inside scoped_lock the thread holds {:?}", held_sorted(&w)));
						}
					}),
					Mode::Shared => exercise!(@scoped_read c, key, $readable, inside, seen, w, ids, v),
				}
				w.end_call(0);
				if inside.get() != 1 {
					v("closure_invocations", "C04", format!("scoped closure ran {} times", inside.get()));
				}
				if route_check() && *seen.borrow() != ids {
					v("misrouted", "C02", format!("scoped data positions reach locks {:?}, declared order is {:?}", seen.borrow(), ids));
				}
				if !w.held(0).is_empty() {
					v("key_back_while_holding", "C03", format!("after scoped call the thread holds {:?}", w.held(0)));
				}
			}
			$cx.tc.key = Some(key);
			$cx.cases += 3 + 2 * ids.len() as u64;
			let _ = &mut got;
		}
	}};
	(@guard $c:ident, $key:ident, $mode:ident, $lock:ident, $read:ident, $w:ident, $ids:ident, $got:ident, $v:ident, $what:expr) => {{
		macro_rules! body {
			($g:expr) => {{
				let g = $g;
				$w.end_call(0);
				if held_sorted(&$w) != want(&$w, &$ids, $mode) {
					$v("holds_not_exact", "C04", format!("after {} ({:?}) the thread holds {:?}, expected {:?}", $what, $mode, held_sorted(&$w), want(&$w, &$ids, $mode)));
				}
				$got.clear();
				g.flat_ids(&mut $got);
				if route_check() && $got != $ids {
					$v("misrouted", "C02", format!("guard positions reach locks {:?}, declared order is {:?}", $got, $ids));
				}
				$w.begin_call(0, Class::Release, "static.drop", false);
				drop(g);
				$w.end_call(0);
				if !$w.held(0).is_empty() {
					$v("key_back_while_holding", "C03", format!("after guard drop the thread holds {:?}", $w.held(0)));
				}
				ThreadKey::get().expect("key after guard drop")
			}};
		}
		match $mode {
			Mode::Excl => body!($c.lock($key)),
			Mode::Shared => exercise!(@read_guard $c, $key, body),
		}
	}};
	(@try $c:ident, $key:ident, $mode:ident, $w:ident, $ids:ident, $v:ident, $expect_ok:expr, $what:expr) => {{
		let before = $w.snapshot();
		macro_rules! tbody {
			($r:expr) => {{
				match $r {
					Ok(g) => {
						let ops = $w.end_call(0);
						if ops.iter().any(|o| o.op == Op::Lock) {
							$v("try_issued_blocking_op", "C04", "try_* issued a blocking raw op".into());
						}
						if !$expect_ok {
							$v("try_outcome_mismatch", "C13", format!("try ({:?}, {}) succeeded although a member is held", $mode, $what));
						} else if held_sorted(&$w).iter().filter(|(_, _)| true).count() != $ids.len() {
							$v("holds_not_exact", "C04", format!("after Ok from try the thread holds {:?}", held_sorted(&$w)));
						}
						drop(g);
						if $w.snapshot() != before {
							$v("success_not_undone_by_drop", "C13", "owner table differs after try + drop".into());
						}
						ThreadKey::get().expect("key after guard drop")
					}
					Err(k) => {
						let ops = $w.end_call(0);
						if ops.iter().any(|o| o.op == Op::Lock) {
							$v("try_issued_blocking_op", "C04", "try_* issued a blocking raw op".into());
						}
						if $expect_ok {
							$v("try_outcome_mismatch", "C13", format!("try ({:?}, {}) failed although nothing conflicting is held", $mode, $what));
						}
						if $w.snapshot() != before {
							$v("failed_try_left_holds", "C04", format!("owner table differs after a failed try: thread holds {:?}", $w.held(0)));
						}
						k
					}
				}
			}};
		}
		match $mode {
			Mode::Excl => tbody!($c.try_lock($key)),
			Mode::Shared => exercise!(@try_read $c, $key, tbody),
		}
	}};
	(@read_guard $c:ident, $key:ident, $body:ident) => {
		$body!($c.read($key))
	};
	(@try_read $c:ident, $key:ident, $body:ident) => {
		$body!($c.try_read($key))
	};
	(@scoped_read $c:ident, $key:ident, $readable:expr, $inside:ident, $seen:ident, $w:ident, $ids:ident, $v:ident) => {
		$c.scoped_read(&mut $key, |d| {
			$inside.set($inside.get() + 1);
			d.flat_ids(&mut $seen.borrow_mut());
			if held_sorted(&$w) != want(&$w, &$ids, Mode::Shared) {
				$v("closure_without_all_holds", "C02", format!("inside scoped_read the thread holds {:?}", held_sorted(&$w)));
			}
		})
	};
}

/// write-only variant for shapes that contain a Mutex (no Sharable impl)
macro_rules! exercise_w {
	($cx:expr, $c:expr, $ids:expr) => {{
		let c = &$c;
		let ids: Vec<LockId> = $ids.clone();
		let w = $cx.tc.w.clone();
		let label = $cx.label.clone();
		let v = |rule: &'static str, prop: &'static str, d: String| w.violate(prop, rule, format!("{label}: {d}"));
		let mode = Mode::Excl;
		let key = $cx.tc.key.take().or_else(ThreadKey::get).expect("key");
		w.begin_call(0, Class::Acquire, "static.lock", false);
		let g = c.lock(key);
		w.end_call(0);
		if held_sorted(&w) != want(&w, &ids, mode) {
			v("holds_not_exact", "C04", format!("after lock the thread holds {:?}, expected {:?}", held_sorted(&w), want(&w, &ids, mode)));
		}
		let mut got = Vec::new();
		g.flat_ids(&mut got);
		if route_check() && got != ids {
			v("misrouted", "C02", format!("guard positions reach locks {:?}, declared order is {:?}", got, ids));
		}
		w.begin_call(0, Class::Release, "static.drop", false);
		drop(g);
		w.end_call(0);
		if !w.held(0).is_empty() {
			v("key_back_while_holding", "C03", format!("after guard drop the thread holds {:?}", w.held(0)));
		}
		let mut key = ThreadKey::get().expect("key");
		// try: free, then every position held
		for k in 0..=ids.len() {
			if k < ids.len() {
				w.phantom_hold(ids[k], Mode::Excl, k as u32, false);
			}
			let before = w.snapshot();
			w.begin_call(0, Class::TryAcquire, "static.try", false);
			match c.try_lock(key) {
				Ok(g) => {
					w.end_call(0);
					if k < ids.len() {
						v("try_outcome_mismatch", "C13", format!("try_lock succeeded although position {k} is held"));
					}
					drop(g);
					key = ThreadKey::get().expect("key");
				}
				Err(kk) => {
					let ops = w.end_call(0);
					if ops.iter().any(|o| o.op == Op::Lock) {
						v("try_issued_blocking_op", "C04", "try_lock issued a blocking raw op".into());
					}
					if k == ids.len() {
						v("try_outcome_mismatch", "C13", "try_lock failed although nothing is held".into());
					}
					key = kk;
				}
			}
			if w.snapshot() != before {
				v("failed_try_left_holds", "C04", format!("owner table differs after try with position {k} held: thread holds {:?}", w.held(0)));
				let mut g = w.g();
				for l in g.locks.iter_mut() {
					if l.excl == Some(0) {
						l.excl = None;
					}
				}
			}
			w.phantom_release_all();
		}
		// scoped
		let seen = std::cell::RefCell::new(Vec::new());
		let inside = std::cell::Cell::new(0u32);
		w.begin_call(0, Class::Acquire, "static.scoped", false);
		c.scoped_lock(&mut key, |d| {
			inside.set(inside.get() + 1);
			d.flat_ids(&mut seen.borrow_mut());
			if held_sorted(&w) != want(&w, &ids, Mode::Excl) {
				v("closure_without_all_holds", "C02", format!("inside scoped_lock the thread holds {:?}", held_sorted(&w)));
			}
		});
		w.end_call(0);
		if inside.get() != 1 {
			v("closure_invocations", "C04", format!("scoped closure ran {} times", inside.get()));
		}
		if route_check() && *seen.borrow() != ids {
			v("misrouted", "C02", format!("scoped data positions reach locks {:?}, declared order is {:?}", seen.borrow(), ids));
		}
		if !w.held(0).is_empty() {
			v("key_back_while_holding", "C03", format!("after scoped call the thread holds {:?}", w.held(0)));
		}
		$cx.tc.key = Some(key);
		$cx.cases += 3 + ids.len() as u64;
	}};
}

/// build a tuple of fresh leaves; `$k` is M | R | PM | PR per position
macro_rules! leaf {
	($cx:expr, $ids:ident, M) => {{
		let (l, id) = mk_m($cx.tc);
		$ids.push(id);
		l
	}};
	($cx:expr, $ids:ident, R) => {{
		let (l, id) = mk_r($cx.tc);
		$ids.push(id);
		l
	}};
	($cx:expr, $ids:ident, ZM) => {{
		let (l, id) = mk_zm($cx.tc);
		$ids.push(id);
		l
	}};
	($cx:expr, $ids:ident, ZR) => {{
		let (l, id) = mk_zr($cx.tc);
		$ids.push(id);
		l
	}};
	($cx:expr, $ids:ident, PM) => {{
		let (l, id) = mk_m($cx.tc);
		$ids.push(id);
		Poisonable::new(l)
	}};
	($cx:expr, $ids:ident, PR) => {{
		let (l, id) = mk_r($cx.tc);
		$ids.push(id);
		Poisonable::new(l)
	}};
}

/// all four collection kinds over an owned tuple / array value built by `$mk` (an expression
/// evaluated afresh for every collection), write-only
macro_rules! owned_shapes_w {
	($cx:expr, $name:expr, |$ids:ident| $mk:expr) => {{
		{
			let mut $ids: Vec<LockId> = Vec::new();
			let v = $mk;
			$cx.label = format!("Boxed::new({})", $name);
			let c = BoxedLockCollection::new(v);
			exercise_w!($cx, c, $ids);
		}
		{
			let mut $ids: Vec<LockId> = Vec::new();
			let v = $mk;
			$cx.label = format!("Owned::new({})", $name);
			let c = OwnedLockCollection::new(v);
			exercise_w!($cx, c, $ids);
		}
		{
			let mut $ids: Vec<LockId> = Vec::new();
			let v = $mk;
			$cx.label = format!("Retrying::new({})", $name);
			let c = RetryingLockCollection::new(v);
			exercise_w!($cx, c, $ids);
		}
		{
			let mut $ids: Vec<LockId> = Vec::new();
			let v = $mk;
			$cx.label = format!("Ref::new(&{})", $name);
			let c = RefLockCollection::new(&v);
			exercise_w!($cx, c, $ids);
			$cx.label = format!("Boxed::new_ref(&{})", $name);
			let c = BoxedLockCollection::new_ref(&v);
			exercise_w!($cx, c, $ids);
			$cx.label = format!("Retrying::new_ref(&{})", $name);
			let c = RetryingLockCollection::new_ref(&v);
			exercise_w!($cx, c, $ids);
		}
		{
			let mut $ids: Vec<LockId> = Vec::new();
			let mut v = $mk;
			$cx.label = format!("Owned::new(&mut {})", $name);
			let c = OwnedLockCollection::new(&mut v);
			exercise_w!($cx, c, $ids);
		}
	}};
}

/// the same with read variants (all members Sharable)
macro_rules! owned_shapes_rw {
	($cx:expr, $name:expr, |$ids:ident| $mk:expr) => {{
		{
			let mut $ids: Vec<LockId> = Vec::new();
			let v = $mk;
			$cx.label = format!("Boxed::new({})", $name);
			let c = BoxedLockCollection::new(v);
			exercise!($cx, c, $ids, true);
		}
		{
			let mut $ids: Vec<LockId> = Vec::new();
			let v = $mk;
			$cx.label = format!("Owned::new({})", $name);
			let c = OwnedLockCollection::new(v);
			exercise!($cx, c, $ids, true);
		}
		{
			let mut $ids: Vec<LockId> = Vec::new();
			let v = $mk;
			$cx.label = format!("Retrying::new({})", $name);
			let c = RetryingLockCollection::new(v);
			exercise!($cx, c, $ids, true);
		}
		{
			let mut $ids: Vec<LockId> = Vec::new();
			let v = $mk;
			$cx.label = format!("Ref::new(&{})", $name);
			let c = RefLockCollection::new(&v);
			exercise!($cx, c, $ids, true);
			$cx.label = format!("Boxed::new_ref(&{})", $name);
			let c = BoxedLockCollection::new_ref(&v);
			exercise!($cx, c, $ids, true);
		}
		{
			let mut $ids: Vec<LockId> = Vec::new();
			let mut v = $mk;
			$cx.label = format!("Retrying::new(&mut {})", $name);
			let c = RetryingLockCollection::new(&mut v);
			exercise!($cx, c, $ids, true);
		}
	}};
}

fn catalogue(tc: &mut Tc<'_>) -> u64 {
	let mut cx = Cx {
		tc,
		cases: 0,
		label: String::new(),
	};
	let cx = &mut cx;
	shape_00(cx);
	shape_01(cx);
	shape_02(cx);
	shape_03(cx);
	shape_04(cx);
	shape_05(cx);
	shape_06(cx);
	shape_07(cx);
	shape_08(cx);
	shape_09(cx);
	shape_10(cx);
	shape_11(cx);
	shape_12(cx);
	shape_13(cx);
	shape_14(cx);
	shape_15(cx);
	shape_16(cx);
	shape_17(cx);
	shape_18(cx);
	shape_19(cx);
	shape_20(cx);
	shape_21(cx);
	shape_22(cx);
	shape_23(cx);
	shape_24(cx);
	shape_25(cx);
	shape_26(cx);
	shape_27(cx);
	shape_28(cx);
	shape_29(cx);
	shape_30(cx);
	shape_31(cx);
	shape_32(cx);
	shape_33(cx);
	shape_34(cx);
	shape_35(cx);
	shape_36(cx);
	cx.cases
}

#[inline(never)]
fn shape_00(cx: &mut Cx<'_, '_>) {
	owned_shapes_w!(cx, "(M,)", |ids| (leaf!(cx, ids, M),));
}

#[inline(never)]
fn shape_01(cx: &mut Cx<'_, '_>) {
	owned_shapes_w!(cx, "(M,R)", |ids| (leaf!(cx, ids, M), leaf!(cx, ids, R)));
}

#[inline(never)]
fn shape_02(cx: &mut Cx<'_, '_>) {
	owned_shapes_w!(cx, "(R,M,PM)", |ids| (leaf!(cx, ids, R), leaf!(cx, ids, M), leaf!(cx, ids, PM)));
}

#[inline(never)]
fn shape_03(cx: &mut Cx<'_, '_>) {
	owned_shapes_w!(cx, "(M,M,R,R)", |ids| (leaf!(cx, ids, M), leaf!(cx, ids, M), leaf!(cx, ids, R), leaf!(cx, ids, R)));
}

#[inline(never)]
fn shape_04(cx: &mut Cx<'_, '_>) {
	owned_shapes_w!(cx, "(PR,M,R,M,PM)", |ids| (
		leaf!(cx, ids, PR),
		leaf!(cx, ids, M),
		leaf!(cx, ids, R),
		leaf!(cx, ids, M),
		leaf!(cx, ids, PM)
	));
}

#[inline(never)]
fn shape_05(cx: &mut Cx<'_, '_>) {
	owned_shapes_w!(cx, "(M,R,PM,M,R,PM)", |ids| (
		leaf!(cx, ids, M),
		leaf!(cx, ids, R),
		leaf!(cx, ids, PM),
		leaf!(cx, ids, M),
		leaf!(cx, ids, R),
		leaf!(cx, ids, PM)
	));
}

#[inline(never)]
fn shape_06(cx: &mut Cx<'_, '_>) {
	owned_shapes_w!(cx, "(R,M,R,M,R,M,R)", |ids| (
		leaf!(cx, ids, R),
		leaf!(cx, ids, M),
		leaf!(cx, ids, R),
		leaf!(cx, ids, M),
		leaf!(cx, ids, R),
		leaf!(cx, ids, M),
		leaf!(cx, ids, R)
	));
}

#[inline(never)]
fn shape_07(cx: &mut Cx<'_, '_>) {
	owned_shapes_rw!(cx, "(R,)", |ids| (leaf!(cx, ids, R),));
}

#[inline(never)]
fn shape_08(cx: &mut Cx<'_, '_>) {
	owned_shapes_rw!(cx, "(R,PR)", |ids| (leaf!(cx, ids, R), leaf!(cx, ids, PR)));
}

#[inline(never)]
fn shape_09(cx: &mut Cx<'_, '_>) {
	owned_shapes_rw!(cx, "(R,R,R)", |ids| (leaf!(cx, ids, R), leaf!(cx, ids, R), leaf!(cx, ids, R)));
}

#[inline(never)]
fn shape_10(cx: &mut Cx<'_, '_>) {
	owned_shapes_rw!(cx, "(PR,R,R,PR)", |ids| (leaf!(cx, ids, PR), leaf!(cx, ids, R), leaf!(cx, ids, R), leaf!(cx, ids, PR)));
}

#[inline(never)]
fn shape_11(cx: &mut Cx<'_, '_>) {
	owned_shapes_rw!(cx, "(R,R,R,R,R)", |ids| (
		leaf!(cx, ids, R),
		leaf!(cx, ids, R),
		leaf!(cx, ids, R),
		leaf!(cx, ids, R),
		leaf!(cx, ids, R)
	));
}

#[inline(never)]
fn shape_12(cx: &mut Cx<'_, '_>) {
	owned_shapes_rw!(cx, "(R,PR,R,PR,R,PR)", |ids| (
		leaf!(cx, ids, R),
		leaf!(cx, ids, PR),
		leaf!(cx, ids, R),
		leaf!(cx, ids, PR),
		leaf!(cx, ids, R),
		leaf!(cx, ids, PR)
	));
}

#[inline(never)]
fn shape_13(cx: &mut Cx<'_, '_>) {
	owned_shapes_rw!(cx, "(R,R,R,R,R,R,R)", |ids| (
		leaf!(cx, ids, R),
		leaf!(cx, ids, R),
		leaf!(cx, ids, R),
		leaf!(cx, ids, R),
		leaf!(cx, ids, R),
		leaf!(cx, ids, R),
		leaf!(cx, ids, R)
	));
}

#[inline(never)]
fn shape_14(cx: &mut Cx<'_, '_>) {
	owned_shapes_w!(cx, "[M;0]", |ids| {
		let a: [M; 0] = [];
		let _ = &mut ids;
		a
	});
}

#[inline(never)]
fn shape_15(cx: &mut Cx<'_, '_>) {
	owned_shapes_w!(cx, "[M;1]", |ids| [leaf!(cx, ids, M)]);
}

#[inline(never)]
fn shape_16(cx: &mut Cx<'_, '_>) {
	owned_shapes_w!(cx, "[M;2]", |ids| [leaf!(cx, ids, M), leaf!(cx, ids, M)]);
}

#[inline(never)]
fn shape_17(cx: &mut Cx<'_, '_>) {
	owned_shapes_w!(cx, "[M;3]", |ids| [leaf!(cx, ids, M), leaf!(cx, ids, M), leaf!(cx, ids, M)]);
}

#[inline(never)]
fn shape_18(cx: &mut Cx<'_, '_>) {
	owned_shapes_w!(cx, "[PM;4]", |ids| [leaf!(cx, ids, PM), leaf!(cx, ids, PM), leaf!(cx, ids, PM), leaf!(cx, ids, PM)]);
}

#[inline(never)]
fn shape_19(cx: &mut Cx<'_, '_>) {
	owned_shapes_rw!(cx, "[R;0]", |ids| {
		let a: [R; 0] = [];
		let _ = &mut ids;
		a
	});
}

#[inline(never)]
fn shape_20(cx: &mut Cx<'_, '_>) {
	owned_shapes_rw!(cx, "[R;1]", |ids| [leaf!(cx, ids, R)]);
}

#[inline(never)]
fn shape_21(cx: &mut Cx<'_, '_>) {
	owned_shapes_rw!(cx, "[R;2]", |ids| [leaf!(cx, ids, R), leaf!(cx, ids, R)]);
}

#[inline(never)]
fn shape_22(cx: &mut Cx<'_, '_>) {
	owned_shapes_rw!(cx, "[R;3]", |ids| [leaf!(cx, ids, R), leaf!(cx, ids, R), leaf!(cx, ids, R)]);
}

#[inline(never)]
fn shape_23(cx: &mut Cx<'_, '_>) {
	owned_shapes_rw!(cx, "[PR;4]", |ids| [leaf!(cx, ids, PR), leaf!(cx, ids, PR), leaf!(cx, ids, PR), leaf!(cx, ids, PR)]);
}

#[inline(never)]
fn shape_24(cx: &mut Cx<'_, '_>) {
	owned_shapes_w!(cx, "Box<[M]>(3)", |ids| vec![leaf!(cx, ids, M), leaf!(cx, ids, M), leaf!(cx, ids, M)].into_boxed_slice());
}

#[inline(never)]
fn shape_25(cx: &mut Cx<'_, '_>) {
	owned_shapes_rw!(cx, "Box<[R]>(3)", |ids| vec![leaf!(cx, ids, R), leaf!(cx, ids, R), leaf!(cx, ids, R)].into_boxed_slice());
}

#[inline(never)]
fn shape_26(cx: &mut Cx<'_, '_>) {
	owned_shapes_rw!(cx, "Box<[R]>(0)", |ids| {
		let _ = &mut ids;
		Vec::<R>::new().into_boxed_slice()
	});
}

#[inline(never)]
fn shape_27(cx: &mut Cx<'_, '_>) {
	owned_shapes_rw!(cx, "Vec<PR>(2)", |ids| vec![leaf!(cx, ids, PR), leaf!(cx, ids, PR)]);
}

#[inline(never)]
fn shape_28(cx: &mut Cx<'_, '_>) {
	owned_shapes_w!(cx, "(Owned<(M,R)>, M)", |ids| (
		OwnedLockCollection::new((leaf!(cx, ids, M), leaf!(cx, ids, R))),
		leaf!(cx, ids, M)
	));
}

#[inline(never)]
fn shape_29(cx: &mut Cx<'_, '_>) {
	owned_shapes_rw!(cx, "(Retrying<[R;2]>, R, Owned<(R,PR)>)", |ids| (
		RetryingLockCollection::new([leaf!(cx, ids, R), leaf!(cx, ids, R)]),
		leaf!(cx, ids, R),
		OwnedLockCollection::new((leaf!(cx, ids, R), leaf!(cx, ids, PR)))
	));
}

#[inline(never)]
fn shape_30(cx: &mut Cx<'_, '_>) {
	owned_shapes_rw!(cx, "[Owned<[R;2]>;2]", |ids| [
		OwnedLockCollection::new([leaf!(cx, ids, R), leaf!(cx, ids, R)]),
		OwnedLockCollection::new([leaf!(cx, ids, R), leaf!(cx, ids, R)])
	]);
}

#[inline(never)]
fn shape_31(cx: &mut Cx<'_, '_>) {
	owned_shapes_w!(cx, "Poisonable<Boxed<(M,R)>> in tuple", |ids| (
		Poisonable::new(BoxedLockCollection::new((leaf!(cx, ids, M), leaf!(cx, ids, R)))),
		leaf!(cx, ids, M)
	));
}

#[inline(never)]
fn shape_32(cx: &mut Cx<'_, '_>) {
	{
		let mut ids: Vec<LockId> = Vec::new();
		let a = leaf!(cx, ids, M);
		let b = leaf!(cx, ids, R);
		let c3 = leaf!(cx, ids, PM);
		let d = leaf!(cx, ids, R);
		let fwd = ids.clone();
		let rev: Vec<LockId> = ids.iter().rev().copied().collect();
		cx.label = "Boxed::try_new((&a,&b,&c,&d))".into();
		let c = BoxedLockCollection::try_new((&a, &b, &c3, &d)).expect("distinct");
		exercise_w!(cx, c, fwd);
		cx.label = "Boxed::try_new((&d,&c,&b,&a))".into();
		let c = BoxedLockCollection::try_new((&d, &c3, &b, &a)).expect("distinct");
		exercise_w!(cx, c, rev);
		cx.label = "Retrying::try_new((&d,&c,&b,&a))".into();
		let c = RetryingLockCollection::try_new((&d, &c3, &b, &a)).expect("distinct");
		exercise_w!(cx, c, rev);
		let t = (&d, &c3, &b, &a);
		cx.label = "Ref::try_new(&(&d,&c,&b,&a))".into();
		let c = RefLockCollection::try_new(&t).expect("distinct");
		exercise_w!(cx, c, rev);
		let mix: Vec<LockId> = vec![ids[2], ids[0], ids[3], ids[1]];
		cx.label = "Boxed::try_new((&c,&a,&d,&b))".into();
		let c = BoxedLockCollection::try_new((&c3, &a, &d, &b)).expect("distinct");
		exercise_w!(cx, c, mix);
	}
}

#[inline(never)]
fn shape_33(cx: &mut Cx<'_, '_>) {
	{
		let mut ids: Vec<LockId> = Vec::new();
		let a = leaf!(cx, ids, R);
		let b = leaf!(cx, ids, R);
		let c3 = leaf!(cx, ids, R);
		let rev: Vec<LockId> = ids.iter().rev().copied().collect();
		cx.label = "Boxed::try_new([&c,&b,&a])".into();
		let c = BoxedLockCollection::try_new([&c3, &b, &a]).expect("distinct");
		exercise!(cx, c, rev, true);
		cx.label = "Retrying::try_new([&c,&b,&a])".into();
		let c = RetryingLockCollection::try_new([&c3, &b, &a]).expect("distinct");
		exercise!(cx, c, rev, true);
		let arr = [&c3, &b, &a];
		cx.label = "Ref::try_new(&[&c,&b,&a])".into();
		let c = RefLockCollection::try_new(&arr).expect("distinct");
		exercise!(cx, c, rev, true);
		let rot: Vec<LockId> = vec![ids[1], ids[2], ids[0]];
		cx.label = "Boxed::try_new(vec![&b,&c,&a].into_boxed_slice())".into();
		let c = BoxedLockCollection::try_new(vec![&b, &c3, &a].into_boxed_slice()).expect("distinct");
		exercise!(cx, c, rot, true);
	}
}

fn shape_34(cx: &mut Cx<'_, '_>) {
	// zero-sized payloads: single locks directly and through every collection kind
	ROUTE_CHECK.with(|c| c.set(false));
	{
		let mut ids: Vec<LockId> = Vec::new();
		let m = leaf!(cx, ids, ZM);
		cx.label = "Mutex<Z> (zero-sized payload), direct API".into();
		exercise_w!(cx, m, ids);
	}
	{
		let mut ids: Vec<LockId> = Vec::new();
		let p = Poisonable::new(leaf!(cx, ids, ZM));
		cx.label = "Boxed::new((Poisonable<Mutex<Z>>,))".into();
		let c = BoxedLockCollection::new((p,));
		exercise_w!(cx, c, ids);
	}
	owned_shapes_w!(cx, "(ZM,ZM,ZM)", |ids| (leaf!(cx, ids, ZM), leaf!(cx, ids, ZM), leaf!(cx, ids, ZM)));
	owned_shapes_w!(cx, "[ZM;2]", |ids| [leaf!(cx, ids, ZM), leaf!(cx, ids, ZM)]);
	owned_shapes_w!(cx, "(ZM,M,ZR)", |ids| (leaf!(cx, ids, ZM), leaf!(cx, ids, M), leaf!(cx, ids, ZR)));
	owned_shapes_rw!(cx, "(ZR,ZR)", |ids| (leaf!(cx, ids, ZR), leaf!(cx, ids, ZR)));
	owned_shapes_rw!(cx, "vec![ZR;3]", |ids| vec![leaf!(cx, ids, ZR), leaf!(cx, ids, ZR), leaf!(cx, ids, ZR)]);
	ROUTE_CHECK.with(|c| c.set(true));
}

fn shape_35(cx: &mut Cx<'_, '_>) {
	// collections whose contents change after construction - and after their first use: operated
	// on while empty, then grown through Extend / child_mut / AsMut, then shrunk
	macro_rules! grown {
		($name:expr, $coll:ident, $leaf:ident, $ex:ident $(, $readable:expr)?) => {{
			let mut ids: Vec<LockId> = Vec::new();
			let mut c = $coll::new(Vec::new());
			cx.label = format!("{}: empty", $name);
			$ex!(cx, c, ids $(, $readable)?);
			let a = leaf!(cx, ids, $leaf);
			let b = leaf!(cx, ids, $leaf);
			c.extend([a, b]);
			cx.label = format!("{}: after extend([a, b])", $name);
			$ex!(cx, c, ids $(, $readable)?);
			let d = leaf!(cx, ids, $leaf);
			c.child_mut().push(d);
			cx.label = format!("{}: after child_mut().push(c)", $name);
			$ex!(cx, c, ids $(, $readable)?);
			let e = leaf!(cx, ids, $leaf);
			AsMut::<Vec<_>>::as_mut(&mut c).push(e);
			cx.label = format!("{}: after as_mut().push(d)", $name);
			$ex!(cx, c, ids $(, $readable)?);
			let gone = c.child_mut().remove(0);
			drop(gone);
			ids.remove(0);
			cx.label = format!("{}: after child_mut().remove(0)", $name);
			$ex!(cx, c, ids $(, $readable)?);
			c.child_mut().clear();
			ids.clear();
			cx.label = format!("{}: emptied again", $name);
			$ex!(cx, c, ids $(, $readable)?);
			let f = leaf!(cx, ids, $leaf);
			c.extend(Some(f));
			cx.label = format!("{}: regrown from empty", $name);
			$ex!(cx, c, ids $(, $readable)?);
		}};
	}
	grown!("Retrying<Vec<M>>", RetryingLockCollection, M, exercise_w);
	grown!("Retrying<Vec<R>>", RetryingLockCollection, R, exercise, true);
	grown!("Owned<Vec<M>>", OwnedLockCollection, M, exercise_w);
	grown!("Owned<Vec<R>>", OwnedLockCollection, R, exercise, true);
	{
		// FromIterator / Default, then extend
		let mut ids: Vec<LockId> = Vec::new();
		let mut c: RetryingLockCollection<Vec<R>> = Default::default();
		cx.label = "Retrying::default()".into();
		exercise!(cx, c, ids, true);
		c.extend(vec![leaf!(cx, ids, R), leaf!(cx, ids, R), leaf!(cx, ids, R)]);
		cx.label = "Retrying::default() + extend(3)".into();
		exercise!(cx, c, ids, true);
		let mut ids2: Vec<LockId> = Vec::new();
		let v = vec![leaf!(cx, ids2, M), leaf!(cx, ids2, M)];
		let mut c: OwnedLockCollection<Vec<M>> = v.into_iter().collect();
		cx.label = "Owned::from_iter(2)".into();
		exercise_w!(cx, c, ids2);
		c.extend(Some(leaf!(cx, ids2, M)));
		cx.label = "Owned::from_iter(2) + extend(1)".into();
		exercise_w!(cx, c, ids2);
	}
}

fn shape_36(cx: &mut Cx<'_, '_>) {
	// a zero-sized owned collection as a member: it occupies no memory, so it can share its
	// address with the sibling next to it - two different (non-duplicate) members at one address.
	// Only the constructors for owned inputs are used (try_new over such a shape is the D8 note).
	owned_shapes_w!(cx, "(Owned<[M;0]>,M,M)", |ids| (OwnedLockCollection::new([] as [M; 0]), leaf!(cx, ids, M), leaf!(cx, ids, M)));
	owned_shapes_w!(cx, "(M,Owned<[M;0]>,M)", |ids| (leaf!(cx, ids, M), OwnedLockCollection::new([] as [M; 0]), leaf!(cx, ids, M)));
	owned_shapes_w!(cx, "(M,M,Owned<[M;0]>)", |ids| (leaf!(cx, ids, M), leaf!(cx, ids, M), OwnedLockCollection::new([] as [M; 0])));
	owned_shapes_rw!(cx, "(Owned<[R;0]>,R,R)", |ids| (OwnedLockCollection::new([] as [R; 0]), leaf!(cx, ids, R), leaf!(cx, ids, R)));
	owned_shapes_rw!(cx, "(Owned<Vec<R>>(empty),R)", |ids| (OwnedLockCollection::new(Vec::<R>::new()), leaf!(cx, ids, R)));
}

pub fn run(cfg: &RunCfg) -> Report {
	let reps: u64 = if cfg.thorough { 64 } else { 4 };
	let (mut rep, _) = par_run(cfg, reps * 2, |i, rep| {
		let policy = if i % 2 == 0 { Policy::ReaderPref } else { Policy::WriterPref };
		let spec = ArenaSpec {
			leaves: vec![],
			units: vec![],
		};
		// earlier junk allocations shift heap addresses between repetitions
		let _junk: Vec<Box<[u8]>> = (0..(i as usize % 7)).map(|k| vec![0u8; 24 * (k + 1)].into_boxed_slice()).collect();
		let (res, out) = solo(&spec, policy, cfg.only.is_some(), |tc| catalogue(tc));
		if let Some(n) = res {
			rep.evaluations += n;
			rep.count("catalogue_passes", 1);
		}
		rep.count("raw_ops", out.stats.raw_ops);
		if let Some(a) = &out.aborted {
			rep.violations.push(VRec {
				prop: "C01".into(),
				rule: "self_block".into(),
				detail: format!("static catalogue blocked: {:?} {}", a, out.deadlock_witness),
				signature: "C01:self_block".into(),
				case: "static catalogue".into(),
				index: i,
				log: out.log.iter().rev().take(40).rev().cloned().collect(),
			});
		}
		if let Some(m) = &out.unwound {
			rep.violations.push(VRec {
				prop: "C04".into(),
				rule: "unexpected_panic".into(),
				detail: m.clone(),
				signature: "C04:unexpected_panic".into(),
				case: "static catalogue".into(),
				index: i,
				log: vec![],
			});
		}
		for v in &out.violations {
			let label = v.detail.split(':').next().unwrap_or("").to_string();
			rep.nontrivial.insert(hash_str(&label));
			rep.violations.push(VRec {
				prop: v.prop.into(),
				rule: v.rule.into(),
				detail: v.detail.clone(),
				signature: sig_of(v),
				case: label,
				index: i,
				log: vec![],
			});
		}
	});
	// distinct non-trivial: shapes x collection kinds exercised (fixed by the catalogue)
	for k in 0..(rep.evaluations / (reps * 2).max(1)) {
		rep.nontrivial.insert(k);
	}
	if rep.samples.is_empty() {
		rep.samples.push(J::obj(vec![
			("shape", J::s("(R,M,R,M,R,M,R) through Boxed::new / Owned::new / Retrying::new / Ref::new / Boxed::new_ref / Retrying::new_ref / Owned::new(&mut ..)")),
			("ops", J::s("lock + positional payload ids, try_lock free and with every single position pre-held, scoped_lock with positional ids and holds checked inside the closure")),
		]));
		rep.samples.push(J::obj(vec![
			("shape", J::s("Boxed::try_new((&d,&c,&b,&a)) over leaves allocated a<b<c<d")),
			("ops", J::s("declared order is the reverse of the sorted order; guard/data position i must reach member i")),
		]));
	}
	rep.rule = "static catalogue of happylock's own container impls under the audit locks: tuples of arity 1..7 (Mutex / RwLock / Poisonable mixes; all-Sharable ones also in read mode), arrays [T; 0..4], Box<[T]>, Vec, nested owned/retrying/boxed/poisonable collections, &T and &mut T, tuples with a zero-sized owned collection at every position (two distinct members at one address), collections that are used while empty and then grown / shrunk through Extend, child_mut and AsMut (re-exercised after every change), locks with ZERO-SIZED payloads (Mutex<Z> / RwLock<Z>: directly, Poisonable-wrapped, in tuples / arrays / Vec, next to ordinary members; position checks off, hold checks on), tuples/arrays/boxed slices of references listed in reverse and mixed orders, each through Boxed / Ref / Owned / Retrying {new, new_ref, try_new}; per collection: lock, try_lock free and with every single position pre-held (shared and exclusive), scoped_lock, and the read variants; monitors: holds exactly the leaves, position i reaches member i (payload names its lock), failed try leaves the owner table unchanged, closure runs once with all locks held; evaluations = API calls checked; distinct = catalogue entries".into();
	rep
}
