//! C07: duplicate-lock detection of the checked constructors is exact.
use happylock::collection::{BoxedLockCollection, RefLockCollection, RetryingLockCollection};

use crate::arena::*;
#[allow(unused_imports)]
use crate::arena::M;
use crate::exec::*;
use crate::json::J;
use crate::lk::Lk;
use crate::prog::*;
use crate::report::*;
use crate::rng::{hash64, hash_str, Rng};
use crate::solo::*;
use crate::world::*;

/// identity keys of the locks a member contributes to the duplicate test: an owned unit is
/// one indivisible lock, everything else contributes its leaves
fn dup_keys(a: &Arena, m: &MemberSpec, out: &mut Vec<u32>) {
	match m {
		MemberSpec::Leaf(i) => out.push(a.leaf_ids[*i]),
		MemberSpec::Unit(u) => {
			if a.unit_kinds[*u].is_owned() {
				// unit identity; disjoint from lock ids
				out.push(1_000_000 + *u as u32)
			} else {
				out.extend(a.unit_ids[*u].iter().copied())
			}
		}
		MemberSpec::Nested(_, v) | MemberSpec::PoisNested(v) => {
			for m in v {
				dup_keys(a, m, out);
			}
		}
	}
}

fn has_dup(keys: &[u32]) -> bool {
	let mut k = keys.to_vec();
	k.sort_unstable();
	k.windows(2).any(|w| w[0] == w[1])
}

/// ways to mention member `m` (a Leaf or Unit) again
fn alias_forms(m: &MemberSpec, other: Option<&MemberSpec>, r: &mut Rng) -> Vec<MemberSpec> {
	let mut v = vec![m.clone()];
	for k in CollKind::ALL {
		v.push(MemberSpec::Nested(k, vec![m.clone()]));
		if let Some(o) = other {
			if r.chance(1, 2) {
				v.push(MemberSpec::Nested(k, vec![o.clone(), m.clone()]));
			} else {
				v.push(MemberSpec::Nested(k, vec![m.clone(), o.clone()]));
			}
		}
	}
	v.push(MemberSpec::PoisNested(vec![m.clone()]));
	v
}

pub fn run(cfg: &RunCfg) -> Report {
	let items = ((if cfg.thorough { 6000.0 } else { 300.0 }) * cfg.scale) as u64;
	let (mut rep, _) = par_run(cfg, items, |i, rep| {
		let mut r = Rng::new(hash64(cfg.seed ^ 0x0D07, i));
		let fam = *r.pick(&Fam::ALL);
		let nl = r.range(1, 5) as usize;
		let mut units = Vec::new();
		if matches!(fam, Fam::R | Fam::M) {
			for _ in 0..r.below(3) {
				let kinds = if fam == Fam::R {
					[UnitKind::OwnedR, UnitKind::BoxedR, UnitKind::RetryR]
				} else {
					[UnitKind::OwnedM, UnitKind::BoxedM, UnitKind::RetryM]
				};
				units.push((*r.pick(&kinds), r.below(3) as usize));
			}
		}
		let arena_spec = ArenaSpec {
			leaves: (0..nl).map(|k| fam.leaf(k)).collect(),
			units,
		};
		let mut universe: Vec<MemberSpec> = (0..nl).map(MemberSpec::Leaf).collect();
		for u in 0..arena_spec.units.len() {
			universe.push(MemberSpec::Unit(u));
		}
		let seed2 = r.next_u64();
		let keep_log = cfg.only.is_some();
		let (res, out) = solo(&arena_spec, Policy::ReaderPref, keep_log, |tc| {
			let w = tc.w.clone();
			// The same storage is checked again after being changed in place, and after an earlier
			// rejection on this thread: a verdict must depend on the input alone, not on history.
			if i % 16 == 0 {
				use crate::props::tuplefam::mk_m;
				let (a, _) = mk_m(tc);
				let (b, _) = mk_m(tc);
				let (c, _) = mk_m(tc);
				let mut v: Vec<&M> = vec![&a, &b, &c];
				let mut arr: [&M; 3] = [&a, &b, &c];
				for round in 0..3 {
					let clean_ref = RefLockCollection::try_new(&v).is_some();
					let clean_boxed = BoxedLockCollection::try_new(arr).is_some();
					let clean_retry = RetryingLockCollection::try_new(arr).is_some();
					v[2] = &a;
					arr[1] = &c;
					let dup_ref = RefLockCollection::try_new(&v).is_some();
					let dup_boxed = BoxedLockCollection::try_new(arr).is_some();
					let dup_retry = RetryingLockCollection::try_new(arr).is_some();
					v[2] = &c;
					arr[1] = &b;
					for (kind, clean, dup) in [("Ref", clean_ref, dup_ref), ("Boxed", clean_boxed, dup_boxed), ("Retrying", clean_retry, dup_retry)] {
						if !clean {
							tc.v("C07", "false_duplicate", format!("{kind}::try_new rejected [&a,&b,&c] (round {round}; the same storage held a duplicate before)"));
						}
						if dup {
							tc.v("C07", "duplicate_accepted", format!("{kind}::try_new accepted a list after one slot was overwritten in place with a lock it already lists (round {round}; the same storage was accepted before)"));
						}
					}
				}
			}
			let mut rr = Rng::new(seed2);
			let mut lists: Vec<Vec<MemberSpec>> = Vec::new();
			lists.push(vec![]);
			// (a) duplicate-free base lists: random sub-permutations, some members nested
			for _ in 0..6 {
				let mut u = universe.clone();
				rr.shuffle(&mut u);
				let len = rr.range(1, u.len().min(6) as u32) as usize;
				let base: Vec<MemberSpec> = u[..len].to_vec();
				// wrap a random run of members into a nested collection
				let mut wrapped = base.clone();
				if len >= 2 && rr.chance(1, 2) {
					let a = rr.below(len as u32 - 1) as usize;
					let b = rr.range(a as u32 + 1, len as u32) as usize;
					let inner: Vec<MemberSpec> = wrapped.drain(a..b).collect();
					let k = *rr.pick(&CollKind::ALL);
					let nested = if rr.chance(1, 4) {
						MemberSpec::PoisNested(inner)
					} else {
						MemberSpec::Nested(k, inner)
					};
					wrapped.insert(a, nested);
				}
				lists.push(base.clone());
				lists.push(wrapped);
				// (b) the duplicate pair at every pair of positions: position j re-mentions
				//     the member at position i in every alias form
				for x in 0..len {
					for y in 0..=len {
						if base.len() >= 6 {
							continue;
						}
						let other = base.get((x + 1) % len).filter(|_| len > 1 && (x + 1) % len != x);
						// the alias may only contain `other` if that does not itself appear
						// elsewhere in the list (inner lists must be duplicate-free; the outer
						// duplicate is what we are testing) - other is in base, so nesting it
						// adds a second duplicate, which is fine for the oracle
						for form in alias_forms(&base[x], other, &mut rr) {
							let mut l = base.clone();
							l.insert(y, form);
							lists.push(l);
						}
					}
				}
			}
			let mut n_dup = 0u64;
			let mut n_free = 0u64;
			let mut cases = Vec::new();
			for list in lists {
				if list.len() > 6 {
					continue;
				}
				let mut keys = Vec::new();
				for m in &list {
					dup_keys(tc.arena, m, &mut keys);
				}
				let want_none = has_dup(&keys);
				let desc = list.iter().map(member_desc).collect::<Vec<_>>().join(",");
				let mut exp = Vec::new();
				for m in &list {
					expected_ids_member(tc.arena, m, &mut exp);
				}
				let readable = list.iter().all(|m| member_readable(&arena_spec, m));
				for kind in CollKind::ALL {
					let verdict = tc.with_members(&list, |tc, outer| {
						let acq = Acq {
							target: Target::Coll(kind, list.clone()),
							mode: if readable && desc.len() % 2 == 0 { Mode::Shared } else { Mode::Excl },
							api: Api::GuardUnlock,
							lent: false,
							panic: false,
							unwind: false,
						};
						let use_it = |tc: &mut Tc<'_>, lk: &dyn Lk| {
							tc.outcomes.clear();
							tc.do_acq(lk, &acq, &exp);
							if tc.outcomes != vec![true] {
								tc.v("C07", "accepted_collection_unusable", format!("{}[{desc}]", kind.name()));
							}
						};
						match kind {
							CollKind::Boxed => {
								let c = tc.nonacq("Boxed::try_new", || BoxedLockCollection::try_new(outer));
								let some = c.is_some();
								if let (Some(c), false) = (&c, want_none) {
									use_it(tc, c);
								}
								some
							}
							CollKind::Ref => {
								let c = tc.nonacq("Ref::try_new", || RefLockCollection::try_new(&outer));
								let some = c.is_some();
								if let (Some(c), false) = (&c, want_none) {
									use_it(tc, c);
								}
								some
							}
							CollKind::Retry => {
								let c = tc.nonacq("Retry::try_new", || RetryingLockCollection::try_new(outer));
								let some = c.is_some();
								if let (Some(c), false) = (&c, want_none) {
									use_it(tc, c);
								}
								some
							}
						}
					});
					let Some(is_some) = verdict else { continue };
					if is_some == want_none {
						w.violate(
							"C07",
							if want_none { "duplicate_accepted" } else { "false_duplicate" },
							format!(
								"{}::try_new([{desc}]) returned {} but the flattened lock list {:?} {} a duplicate",
								kind.name(),
								if is_some { "Some" } else { "None" },
								keys,
								if want_none { "contains" } else { "does not contain" }
							),
						);
					}
					if want_none {
						n_dup += 1
					} else {
						n_free += 1
					}
					cases.push((hash_str(&format!("{}[{desc}]", kind.name())), desc.clone(), want_none));
				}
			}
			(n_dup, n_free, cases)
		});
		let case = arena_desc(&arena_spec);
		if let Some((n_dup, n_free, cases)) = res {
			rep.evaluations += n_dup + n_free;
			rep.count("lists_with_duplicate", n_dup);
			rep.count("duplicate_free_lists_accepted_and_locked", n_free);
			for (h, d, dup) in cases {
				rep.nontrivial.insert(hash64(hash_str(&case), h));
				if rep.samples.len() < 4 && h % 53 == 0 {
					rep.samples.push(J::obj(vec![
						("arena", J::s(&case)),
						("list", J::s(d)),
						("oracle_has_duplicate", J::Bool(dup)),
					]));
				}
			}
		}
		if let Some(a) = &out.aborted {
			rep.inconclusive.push(format!("item {i}: {:?} {}", a, out.deadlock_witness));
		}
		if let Some(m) = &out.unwound {
			rep.inconclusive.push(format!("item {i}: unexpected panic {m}"));
		}
		for v in &out.violations {
			rep.violations.push(VRec {
				prop: v.prop.into(),
				rule: v.rule.into(),
				detail: v.detail.clone(),
				signature: sig_of(v),
				case: case.clone(),
				index: i,
				log: vec![],
			});
		}
	});
	rep.rule = "per universe (1-5 leaf locks of every family + up to 2 owned/boxed/retrying units): duplicate-free lists (sub-permutations, with runs wrapped into nested boxed/ref/retrying/poisonable collections) and, for every list and every pair of positions (i, j), the list with a second mention of member i inserted at j in every alias form (listed again, inside a nested collection of each kind alone or next to another member, inside a poisonable-wrapped collection); each list goes through Boxed/Ref/Retrying::try_new and the verdict is compared with a flattened-multiset oracle (owned unit = one lock); accepted collections are locked and must hold exactly their leaves; distinct = distinct (universe, constructor, list)".into();
	rep
}
