//! Random single-thread API sequences in solo mode with phantom holders: serves C03
//! (sequential part), C05 (sequential part), C04/C11 incidentally.
use crate::exec::*;
use crate::json::J;
use crate::prog::*;
use crate::props::tryfam::{asg_str, place, Hold};
use crate::report::*;
use crate::rng::{hash64, Rng};
use crate::solo::*;
use crate::world::*;

pub fn run(cfg: &RunCfg) -> Report {
	let items = ((if cfg.thorough { 400_000.0 } else { 20_000.0 }) * cfg.scale) as u64;
	let (mut rep, _) = par_run(cfg, items, |i, rep| {
		let mut r = Rng::new(hash64(cfg.seed ^ 0x5E0F, i));
		let g = GenCfg {
			allow_panic: true,
			..GenCfg::default()
		};
		let arena_spec = gen_arena(&mut r, &g);
		let len = r.range(2, 12);
		let acqs: Vec<Acq> = (0..len).map(|_| gen_acq(&mut r, &arena_spec, &g)).collect();
		let policy = if r.chance(1, 2) { Policy::ReaderPref } else { Policy::WriterPref };
		let hold_seed = r.next_u64();
		let keep_log = cfg.only.is_some();
		let (res, out) = solo(&arena_spec, policy, keep_log, |tc| {
			let w = tc.w.clone();
			let mut hr = Rng::new(hold_seed);
			let all_ids = leaf_ids_flat(tc.arena);
			let mut steps = Vec::new();
			let mut contended = 0u32;
			for a in &acqs {
				// random pre-held pattern; phantoms release when the caller blocks on them
				let asg: Vec<Hold> = all_ids
					.iter()
					.map(|id| match hr.below(5) {
						0 => Hold::Write,
						1 if is_rw(&w, *id) => Hold::Read,
						_ => Hold::Free,
					})
					.collect();
				place(&w, &all_ids, &asg, true);
				tc.try_max = 1 + hr.below(2);
				tc.outcomes.clear();
				let before_fail = w.g().stats.failed_tries;
				let before_block = w.g().stats.blocked_acquires;
				let r = guarded(|| tc.run_acq(a));
				let mut note = String::new();
				match r {
					Ok(()) => {}
					Err(Unwound::InjectedPanic) if a.panic => {
						note = " [panicked]".into();
						let held = w.held(0);
						if !held.is_empty() {
							w.violate(
								"C03",
								"unwound_call_left_holds",
								format!("{} unwound but the thread still holds {:?}", acq_desc(a), held),
							);
							w.violate(
								"C11",
								"lock_leaked_by_panic",
								format!("{} unwound but the thread still holds {:?}", acq_desc(a), held),
							);
						}
						tc.key = None;
					}
					Err(Unwound::Abort) => bail(),
					Err(Unwound::InjectedPanic) | Err(Unwound::InjectedFault) => {
						w.violate("C03", "harness", "unexpected injected payload".into());
					}
					Err(Unwound::Other(m)) => {
						w.violate(
							if a.panic { "C11" } else { "C03" },
							"unexpected_panic",
							format!("{}: {m}", acq_desc(a)),
						);
						tc.key = None;
					}
				}
				{
					let g = w.g();
					if g.stats.failed_tries > before_fail || g.stats.blocked_acquires > before_block {
						contended += 1;
					}
				}
				// the key that came back (or a fresh one) must be usable at once for the same locks
				let again = Acq {
					target: a.target.clone(),
					mode: a.mode,
					api: Api::GuardUnlock,
					lent: false,
					panic: false,
					unwind: false,
				};
				tc.outcomes.clear();
				tc.run_acq(&again);
				if tc.outcomes != vec![true] {
					w.violate(
						"C03",
						"immediate_reacquisition_failed",
						format!("after {}: re-acquisition outcomes {:?}", acq_desc(a), tc.outcomes),
					);
				}
				steps.push(format!("{} holds={}{}", acq_desc(a), asg_str(&asg), note));
			}
			w.phantom_release_all();
			// C05: everything free again
			let g = w.g();
			for (li, l) in g.locks.iter().enumerate() {
				if !l.is_free() {
					let d = format!("lock{li} excl={:?} shared={:?} after the sequence", l.excl, l.shared);
					drop(g);
					w.violate("C05", "hold_leaked_at_end", d);
					break;
				}
			}
			(steps, contended)
		});
		rep.evaluations += 1;
		rep.count("raw_ops", out.stats.raw_ops);
		rep.count("acquisitions_made_during_an_unwind", out.tstats.in_unwind);
		rep.count("failed_raw_tries", out.stats.failed_tries);
		rep.count("blocked_then_phantom_released", out.stats.phantom_autorelease);
		rep.count("acquisitions", out.tstats.acquisitions);
		rep.count("panics_injected", out.tstats.panics_injected);
		rep.count("key_reget", out.tstats.key_reget);
		let case = format!(
			"{} | {}",
			arena_desc(&arena_spec),
			acqs.iter().map(acq_desc).collect::<Vec<_>>().join(" ; ")
		);
		if let Some((steps, contended)) = &res {
			if *contended > 0 {
				rep.nontrivial.insert(hash64(crate::rng::hash_str(&case), hold_seed));
			}
			if rep.samples.len() < 2 && *contended > 1 {
				rep.samples.push(J::obj(vec![
					("index", J::u(i)),
					("arena", J::s(arena_desc(&arena_spec))),
					("steps", J::Arr(steps.iter().map(J::s).collect())),
				]));
			}
		}
		if let Some(a) = &out.aborted {
			match a {
				Abort::Deadlock | Abort::SelfWait => rep.violations.push(VRec {
					prop: "C03".into(),
					rule: "self_block".into(),
					detail: format!("single thread blocked: {:?} {}", a, out.deadlock_witness),
					signature: "C03:self_block".into(),
					case: case.clone(),
					index: i,
					log: out.log.clone(),
				}),
				_ => rep.inconclusive.push(format!("item {i}: {:?}", a)),
			}
		}
		if let Some(m) = &out.unwound {
			rep.violations.push(VRec {
				prop: "C03".into(),
				rule: "unexpected_panic".into(),
				detail: m.clone(),
				signature: "C03:unexpected_panic".into(),
				case: case.clone(),
				index: i,
				log: out.log.clone(),
			});
		}
		for v in &out.violations {
			rep.violations.push(VRec {
				prop: v.prop.into(),
				rule: v.rule.into(),
				detail: v.detail.clone(),
				signature: sig_of(v),
				case: case.clone(),
				index: i,
				log: out.log.iter().rev().take(80).rev().cloned().collect(),
			});
		}
	});
	rep.rule = "random single-thread sequences (length 2..12) over the acquire/release vocabulary {lock, try, scoped, scoped_try} x {read, write} x {guard drop, unlock} x {owned, lent key} x {single lock, poisonable, owned/boxed/retrying units, boxed/ref/retrying collections, nested, poisonable-wrapped} with a fresh random pattern of phantom holders before every step (phantoms release when blocked upon) and panicking sections; after every step the same locks are re-acquired at once; a sequence is non-trivial iff at least one step met contention (failed raw try or blocked acquire); distinct = distinct (sequence, hold pattern seed); one acquisition in eight is made from a destructor during an unrelated unwind".into();
	rep
}
