//! C12: a panicking raw lock operation leaks nothing and kills only that lock.
//!
//! For every case (shape x mode x API x pre-held pattern) a dry run counts the raw operations
//! N of the whole call (acquire, section, release); then 2N runs inject a one-shot fault at
//! raw-op index k = 0..N-1 in phase before (op has no effect) / after (op took effect).
use happylock::ThreadKey;

use crate::arena::*;
use crate::exec::*;
use crate::json::J;
use crate::lk::*;
use crate::prog::*;
use crate::props::tryfam::{asg_str, place, Hold};
use crate::report::*;
use crate::rng::{hash64, hash_str, Rng};
use crate::solo::*;
use crate::world::*;

fn kind_of(a: &ArenaSpec, t: &Target) -> String {
	match t {
		Target::Leaf(i) => format!("leaf{}", a.leaves[*i].name()),
		Target::Unit(u) => format!("unit{}", a.units[*u].0.name()),
		Target::Coll(k, m) => {
			let nested = m.iter().any(|x| matches!(x, MemberSpec::Nested(..) | MemberSpec::PoisNested(..)));
			let unit = m.iter().any(|x| matches!(x, MemberSpec::Unit(_)));
			format!("{}{}{}", k.name(), if nested { "+nested" } else { "" }, if unit { "+unit" } else { "" })
		}
		Target::PoisColl(k, _) => if *k == CollKind::Retry { "pois(retry)".into() } else { "pois(boxed)".into() },
	}
}

fn patterns(rw: &[bool], all: bool, r: &mut Rng) -> Vec<Vec<Hold>> {
	let n = rw.len();
	let mut out = vec![vec![Hold::Free; n]];
	for i in 0..n {
		let mut a = vec![Hold::Free; n];
		a[i] = Hold::Write;
		out.push(a);
		if rw[i] {
			let mut a = vec![Hold::Free; n];
			a[i] = Hold::Read;
			out.push(a);
		}
	}
	if n >= 2 {
		// two held members
		let mut a = vec![Hold::Free; n];
		a[0] = Hold::Write;
		a[n - 1] = Hold::Write;
		out.push(a);
		if all {
			for _ in 0..3 {
				let a: Vec<Hold> = (0..n)
					.map(|i| match r.below(3) {
						0 => Hold::Write,
						1 if rw[i] => Hold::Read,
						_ => Hold::Free,
					})
					.collect();
				out.push(a);
			}
		}
	}
	out
}

struct Probe<'x> {
	name: String,
	ids: Vec<LockId>,
	lk: &'x dyn Lk,
}

fn probes<'x>(arena: &'x Arena) -> Vec<Probe<'x>> {
	let mut v = Vec::new();
	for (i, leaf) in arena.leaves.iter().enumerate() {
		let lk: &dyn Lk = match leaf {
			Leaf::M(l) => l,
			Leaf::R(l) => l,
			Leaf::PM(l) => l,
			Leaf::PR(l) => l,
		};
		v.push(Probe {
			name: format!("L{i}"),
			ids: vec![arena.leaf_ids[i]],
			lk,
		});
	}
	for (u, unit) in arena.units.iter().enumerate() {
		let lk: &dyn Lk = match unit {
			Unit::OwnedM(c) => c,
			Unit::OwnedR(c) => c,
			Unit::BoxedM(c) => c,
			Unit::BoxedR(c) => c,
			Unit::RetryM(c) => c,
			Unit::RetryR(c) => c,
		};
		v.push(Probe {
			name: format!("U{u}"),
			ids: arena.unit_ids[u].clone(),
			lk,
		});
	}
	v
}

/// evaluate R1..R5 after the faulted call unwound; returns violations as (rule, detail)
fn evaluate(
	tc: &mut Tc<'_>,
	result: &Result<(), Unwound>,
	persistent: bool,
) -> Vec<(String, String)> {
	let w = tc.w.clone();
	let mut out: Vec<(String, String)> = Vec::new();
	let info = w.g().fault_info.clone();
	let Some(info) = info else {
		return out; // fault index not reached (shorter path): nothing to judge
	};
	let f = info.lock;
	let faulted: Vec<LockId> = {
		let g = w.g();
		(1..g.locks.len() as LockId).filter(|l| g.locks[*l as usize].faulted).collect()
	};
	// R1
	match result {
		Err(Unwound::InjectedFault) => {}
		Err(Unwound::Other(m)) if m.contains("killed") => {}
		Ok(()) => out.push(("R1_panic_swallowed".into(), "the raw-lock panic did not reach the caller".into())),
		Err(Unwound::Other(m)) => out.push(("R1_panic_replaced".into(), format!("surfaced as '{m}'"))),
		Err(Unwound::Abort) => out.push(("R1_blocked".into(), "the call blocked / deadlocked after the fault".into())),
		Err(Unwound::InjectedPanic) => {}
	}
	// R2 / R3
	let held_after = w.held(0);
	let (bad, acq_rel): (Vec<u32>, Vec<(u32, u32)>) = {
		let g = w.g();
		(
			g.locks.iter().map(|l| l.bad_releases).collect(),
			g.locks.iter().map(|l| (l.n_acq, l.n_rel)).collect(),
		)
	};
	let _ = acq_rel;
	let healthy_leak = held_after.iter().any(|(l, _)| !faulted.contains(l));
	if healthy_leak {
		// C03 in its own words: the call unwound and the key is back, yet a covered lock is held
		if let Some(k) = ThreadKey::get() {
			drop(k);
			w.violate(
				"C03",
				"key_back_while_holding",
				format!("a call unwound by a raw-lock panic gave the key back while the thread still holds {:?}", held_after),
			);
		}
	}
	for (l, m) in &held_after {
		if faulted.contains(l) {
			continue;
		}
		out.push((
			"R2_lock_leaked".into(),
			format!("lock {l} ({}) is still owned by the caller after the unwind (held before the fault: {:?}, faulted lock {f})", m.ch(), info.held),
		));
	}
	for (l, n) in bad.iter().enumerate() {
		if *n == 0 {
			continue;
		}
		let l = l as LockId;
		if faulted.contains(&l) {
			// the faulted lock's own state is uncertain - except when the caller provably never
			// held it: a lock/try that panicked *before* taking effect
			let never_held = l == f
				&& !persistent
				&& info.phase == Phase::Before
				&& info.op != Op::Unlock
				&& !info.held.iter().any(|(h, _)| *h == l);
			if never_held {
				out.push((
					"R3_released_never_held_faulted_lock".into(),
					format!(
						"lock {l}: its {:?} panicked before taking effect, yet the caller issued {n} release(s) for it{}",
						info.op,
						if info.lock_held_by_other { " while ANOTHER thread holds it" } else { "" }
					),
				));
			}
			continue;
		}
		if info.held.iter().any(|(h, _)| *h == l) {
			out.push(("R2_released_twice".into(), format!("lock {l} was held at the fault and then released {n} time(s) too many")));
		} else {
			out.push(("R3_released_not_held".into(), format!("{n} release(s) issued for lock {l} which the caller did not hold")));
		}
	}
	// R4 / R5: probes on a clean audit table (only happylock's own flags can refuse now)
	{
		let n = w.g().locks.len() as LockId;
		for l in 1..n {
			w.force_free(l);
			w.set_persistent_fault(l, 0);
		}
	}
	tc.key = None;
	let arena = tc.arena;
	for p in probes(arena) {
		let has_faulted = p.ids.iter().any(|l| faulted.contains(l));
		let Some(key) = ThreadKey::get() else {
			out.push(("key_unobtainable_after_fault".into(), "ThreadKey::get() is None after the unwind".into()));
			return out;
		};
		w.begin_call(0, Class::Harness, "probe", false);
		let r = guarded(|| match p.lk.try_lock(key, Mode::Excl) {
			TryOut::Ok(g) => {
				drop(g);
				true
			}
			TryOut::WouldBlock(k) => {
				drop(k);
				false
			}
		});
		w.end_call(0);
		let n = w.g().locks.len() as LockId;
		for l in 1..n {
			w.force_free(l);
		}
		match (has_faulted, r) {
			(true, Ok(true)) => out.push((
				"R4_faulted_lock_still_grants_try".into(),
				format!("{} contains faulted lock(s) {:?} but try_lock succeeded", p.name, faulted),
			)),
			(false, Ok(false)) => out.push((
				"R5_healthy_lock_killed".into(),
				format!("{} (locks {:?}) never had a panicking operation but refuses try_lock afterwards", p.name, p.ids),
			)),
			(false, Err(Unwound::Other(m))) => out.push((
				"R5_healthy_lock_killed".into(),
				format!("{} never had a panicking operation but try_lock panics: {m}", p.name),
			)),
			_ => {}
		}
		if has_faulted {
			// blocking acquisition must panic instead of returning
			let Some(key) = ThreadKey::get() else { continue };
			w.begin_call(0, Class::Harness, "probe", false);
			let r = guarded(|| {
				let g = p.lk.lock(key, Mode::Excl);
				drop(g);
			});
			w.end_call(0);
			let n = w.g().locks.len() as LockId;
			for l in 1..n {
				w.force_free(l);
			}
			if r.is_ok() {
				out.push((
					"R4_faulted_lock_still_grants_lock".into(),
					format!("{} contains faulted lock(s) {:?} but a blocking acquisition returned normally", p.name, faulted),
				));
			}
		}
	}
	out
}

/// A release issued for a healthy lock the caller does not hold (any more) is also a violation of
/// C05 in its own words ("never issues a release for a lock the calling thread does not hold").
#[allow(clippy::too_many_arguments)]
fn c05_twin(rep: &mut Report, rule: &str, detail: &str, kind: &str, api: Api, mode: Mode, case: &str, index: u64) {
	if rule == "R2_lock_leaked" {
		// C04 in its own words: an acquisition that did not succeed holds none of the members
		rep.violations.push(VRec {
			prop: "C04".into(),
			rule: "unwound_acquisition_left_holds".into(),
			detail: format!("{rule}: {detail}"),
			signature: format!("C04:unwound_acquisition_left_holds:{kind}:{}:{}", api.name(), mode.ch()),
			case: case.to_string(),
			index,
			log: vec![],
		});
	}
	if rule == "R2_released_twice" || rule == "R3_released_not_held" {
		rep.violations.push(VRec {
			prop: "C05".into(),
			rule: "release_not_held_after_raw_panic".into(),
			detail: format!("{rule}: {detail}"),
			signature: format!("C05:release_not_held_after_raw_panic:{kind}:{}:{}", api.name(), mode.ch()),
			case: case.to_string(),
			index,
			log: vec![],
		});
	}
}

pub fn run(cfg: &RunCfg) -> Report {
	let max_n = if cfg.thorough { 4 } else { 3 };
	let mut shapes = Vec::new();
	for fam in [Fam::M, Fam::R, Fam::Mixed, Fam::PM] {
		for n in 1..=max_n {
			if !cfg.thorough && n == 3 && fam != Fam::M && fam != Fam::R {
				continue;
			}
			let mut v = enum_shapes(n, fam, n <= 3);
			if !cfg.thorough && n == 3 {
				// reduced tier: every 3rd shape of size 3
				v = v.into_iter().enumerate().filter(|(k, _)| k % 3 == 0).map(|(_, x)| x).collect();
			}
			if cfg.thorough && n == 4 {
				v = v.into_iter().enumerate().filter(|(k, _)| k % 5 == 0).map(|(_, x)| x).collect();
			}
			shapes.extend(v);
		}
	}
	let apis: Vec<(Api, bool)> = vec![
		(Api::Guard, false),
		(Api::GuardUnlock, false),
		(Api::TryLoop, false),
		(Api::Scoped, false),
		(Api::Scoped, true),
		(Api::ScopedTry, false),
	];
	let apis = &apis;
	let (mut rep, _) = par_run(cfg, shapes.len() as u64, |i, rep| {
		let (arena_spec, target) = &shapes[i as usize];
		let readable = target_readable(arena_spec, target);
		let kind = kind_of(arena_spec, target);
		let case0 = format!("{} {}", arena_desc(arena_spec), target_desc(target));
		let mut r = Rng::new(hash64(cfg.seed ^ 0xC12, i));
		// leaf rw-ness is needed for the patterns: derive from the spec
		let rw: Vec<bool> = {
			let (v, _) = solo(arena_spec, Policy::ReaderPref, false, |tc| {
				expected_ids(tc.arena, target).iter().map(|id| is_rw(&tc.w, *id)).collect::<Vec<_>>()
			});
			v.unwrap_or_default()
		};
		let pats = patterns(&rw, cfg.thorough, &mut r);
		for mode in [Mode::Excl, Mode::Shared] {
			if mode == Mode::Shared && !readable {
				continue;
			}
			for &(api, lent) in apis.iter() {
				let blocking = matches!(api, Api::Guard | Api::GuardUnlock | Api::Scoped);
				for asg in &pats {
					let acq = Acq {
						target: target.clone(),
						mode,
						api,
						lent,
						panic: false,
						unwind: false,
					};
					// ---- dry run
					let (n_ops, dry) = solo(arena_spec, Policy::ReaderPref, false, |tc| {
						let ids = expected_ids(tc.arena, target);
						place(&tc.w, &ids, asg, blocking);
						tc.try_max = 1;
						tc.run_acq(&acq);
						tc.w.raw_seq(0)
					});
					let Some(n_ops) = n_ops else {
						rep.inconclusive.push(format!("dry run failed for {case0} {}: {:?} {:?}", acq_desc(&acq), dry.aborted, dry.unwound));
						continue;
					};
					if !dry.violations.is_empty() {
						// fault-free violations belong to other properties; skip the case
						continue;
					}
					// ---- persistent per-operation faults (as in tests/evil_*.rs), at every position
					let n_leaves = rw.len();
					for pos in 0..n_leaves {
						for mask in [PF_LOCK | PF_TRY, PF_UNLOCK, PF_LOCK | PF_TRY | PF_UNLOCK] {
							let (res, out) = solo(arena_spec, Policy::ReaderPref, cfg.only.is_some(), |tc| {
								let w = tc.w.clone();
								let ids = expected_ids(tc.arena, target);
								place(&w, &ids, asg, blocking);
								// a phantom cannot hold a lock whose lock/try always panics
								if mask & PF_LOCK != 0 {
									w.force_free(ids[pos]);
								}
								w.set_persistent_fault(ids[pos], mask);
								tc.try_max = 1;
								let r = guarded(|| tc.run_acq(&acq));
								let info = w.g().fault_info.clone();
								let v = evaluate(tc, &r, true);
								(v, info)
							});
							rep.evaluations += 1;
							let Some((viol, info)) = res else {
								rep.inconclusive.push(format!("{case0} {} persistent pos={pos} mask={mask}: {:?} {:?}", acq_desc(&acq), out.aborted, out.unwound));
								continue;
							};
							let Some(info) = info else { continue };
							rep.count("persistent_fault_runs_fired", 1);
							let maskname = match mask {
								x if x == PF_LOCK | PF_TRY => "lock+try always panic",
								x if x == PF_UNLOCK => "unlock always panics",
								_ => "every op panics",
							};
							let case = format!(
								"{case0} | {} pre-held={} | persistent fault '{maskname}' on leaf position {pos} (lock {}); first fired in '{}' on {:?}",
								acq_desc(&acq),
								asg_str(asg),
								info.lock,
								info.call_label,
								info.op
							);
							rep.nontrivial.insert(hash_str(&case));
							for (rule, detail) in viol {
								c05_twin(rep, &rule, &detail, &kind, api, mode, &case, i);
								rep.violations.push(VRec {
									prop: "C12".into(),
									rule: rule.clone(),
									detail,
									signature: format!("C12:{rule}:{kind}:{}:{}:persistent:{maskname}", api.name(), mode.ch()),
									case: case.clone(),
									index: i,
									log: out.log.iter().rev().take(80).rev().cloned().collect(),
								});
							}
						}
					}
					// ---- two members whose unlock always panics, every pair of positions
					// (only through the scoped APIs: their releases go through the collection-level
					// release loop; with guards, a second panicking unlock happens inside a
					// destructor that runs during unwinding, which aborts the process in any Rust
					// program)
					let two_faults_ok = matches!(api, Api::Scoped | Api::ScopedTry) && !matches!(target, Target::Leaf(_));
					for p1 in 0..n_leaves {
						if !two_faults_ok {
							break;
						}
						for p2 in p1 + 1..n_leaves {
							let (res, out) = solo(arena_spec, Policy::ReaderPref, cfg.only.is_some(), |tc| {
								let w = tc.w.clone();
								let ids = expected_ids(tc.arena, target);
								place(&w, &ids, asg, blocking);
								w.set_persistent_fault(ids[p1], PF_UNLOCK);
								w.set_persistent_fault(ids[p2], PF_UNLOCK);
								tc.try_max = 1;
								let r = guarded(|| tc.run_acq(&acq));
								let info = w.g().fault_info.clone();
								let v = evaluate(tc, &r, true);
								(v, info)
							});
							rep.evaluations += 1;
							let Some((viol, info)) = res else { continue };
							let Some(info) = info else { continue };
							rep.count("double_persistent_fault_runs_fired", 1);
							let case = format!(
								"{case0} | {} pre-held={} | unlock always panics on leaf positions {p1} and {p2}; first fired in '{}'",
								acq_desc(&acq),
								asg_str(asg),
								info.call_label
							);
							rep.nontrivial.insert(hash_str(&case));
							for (rule, detail) in viol {
								c05_twin(rep, &rule, &detail, &kind, api, mode, &case, i);
								rep.violations.push(VRec {
									prop: "C12".into(),
									rule: rule.clone(),
									detail,
									signature: format!("C12:{rule}:{kind}:{}:{}:two_unlock_faults", api.name(), mode.ch()),
									case: case.clone(),
									index: i,
									log: out.log.iter().rev().take(80).rev().cloned().collect(),
								});
							}
							for v in &out.violations {
								if v.prop == "C03" {
									rep.violations.push(VRec {
										prop: "C03".into(),
										rule: v.rule.into(),
										detail: v.detail.clone(),
										signature: sig_of(v),
										case: case.clone(),
										index: i,
										log: vec![],
									});
								}
							}
						}
					}
					for k in 0..n_ops {
						for phase in [Phase::Before, Phase::After] {
							let (res, out) = solo(arena_spec, Policy::ReaderPref, cfg.only.is_some(), |tc| {
								let w = tc.w.clone();
								let ids = expected_ids(tc.arena, target);
								place(&w, &ids, asg, blocking);
								w.add_fault(FaultSpec {
									tid: 0,
									call: u32::MAX,
									op_index: 0,
									phase,
									fired: false,
									global_index: Some(k),
								});
								tc.try_max = 1;
								let r = guarded(|| tc.run_acq(&acq));
								let info = w.g().fault_info.clone();
								let v = evaluate(tc, &r, false);
								(v, info)
							});
							rep.evaluations += 1;
							if let Some(a) = &out.aborted {
								if !matches!(a, Abort::Deadlock | Abort::SelfWait) {
									rep.inconclusive.push(format!("{case0}: {:?}", a));
								}
							}
							let Some((viol, info)) = res else {
								rep.inconclusive.push(format!("{case0} {} k={k}: evaluation aborted {:?} {:?}", acq_desc(&acq), out.aborted, out.unwound));
								continue;
							};
							let Some(info) = info else { continue };
							rep.count("faults_fired", 1);
							let role = format!("{:?}@{:?}", info.op, info.phase).to_lowercase();
							let case = format!(
								"{case0} | {} pre-held={} | fault at raw op #{k} ({} of lock {} in '{}', phase {:?}; held then: {:?})",
								acq_desc(&acq),
								asg_str(asg),
								format!("{:?}", info.op).to_lowercase(),
								info.lock,
								info.call_label,
								info.phase,
								info.held
							);
							rep.nontrivial.insert(hash_str(&case));
							if rep.samples.len() < 3 && (k + i as u32) % 29 == 0 {
								rep.samples.push(J::obj(vec![("case", J::s(&case)), ("violations", J::u(viol.len() as u64))]));
							}
							for v in &out.violations {
								if v.prop == "C03" {
									rep.violations.push(VRec {
										prop: "C03".into(),
										rule: v.rule.into(),
										detail: v.detail.clone(),
										signature: sig_of(v),
										case: case.clone(),
										index: i,
										log: vec![],
									});
								}
							}
							for (rule, detail) in viol {
								c05_twin(rep, &rule, &detail, &kind, api, mode, &case, i);
								rep.violations.push(VRec {
									prop: "C12".into(),
									rule: rule.clone(),
									detail,
									signature: format!("C12:{rule}:{kind}:{}:{}:{role}:{}", api.name(), mode.ch(), info.call_label),
									case: case.clone(),
									index: i,
									log: out.log.iter().rev().take(80).rev().cloned().collect(),
								});
							}
						}
					}
				}
			}
		}
	});
	rep.rule = format!("fault enumeration: shapes of sizes 1..{max_n} (families Mutex, RwLock, mixed, Poisonable<Mutex>; single lock, boxed/ref/retrying collections in every arrangement, nested, poisonable-wrapped, owned/boxed/retrying units) x {{write, read}} x {{guard+drop, guard+unlock, try, scoped owned/lent, scoped_try}} x pre-held patterns (all free; each single member write-/read-held; two members held; phantom holders release when blocked upon, which moves the retrying collection's first_index) x a one-shot panic injected at every raw-op index of the whole call (acquisition, rollback, release) in phase before / after, plus the persistent per-operation faults of tests/evil_*.rs (lock+try always panic / unlock always panics / every op panics) on every leaf position; rules R1-R5 evaluated from the owner table, the release audit and post-mortem probes; evaluations = fault runs; distinct = distinct (case, fault position)");
	rep
}
