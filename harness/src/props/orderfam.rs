//! C08: sorting collections agree on one arrangement-independent acquisition order.
use std::collections::HashMap;

use crate::arena::*;
use crate::exec::*;
use crate::json::J;
use crate::prog::*;
use crate::report::*;
use crate::rng::{hash64, hash_str, Rng};
use crate::solo::*;
use crate::world::*;

/// The locks a call ended up holding, in the order in which it (last) took them: a lock that is
/// given back and taken again inside the call (a back-off) counts from its last acquisition, so a
/// call that holds a higher lock while it re-takes a lower one shows up as an inversion.
fn acquisition_order(ops: &[RawRec]) -> Vec<LockId> {
	let mut held: Vec<LockId> = Vec::new();
	let mut at_last_acquisition: Vec<LockId> = Vec::new();
	for o in ops {
		match o.op {
			Op::Unlock => {
				if let Some(p) = held.iter().rposition(|l| *l == o.lock) {
					held.remove(p);
				}
			}
			Op::Lock | Op::Try => {
				if o.ok {
					held.push(o.lock);
					at_last_acquisition = held.clone();
				}
			}
		}
	}
	at_last_acquisition
}

/// Sorting collections built by the constructors that skip the duplicate check (`new`) over
/// OWNED inputs whose listing order differs from their address order: `&mut` members listed
/// out of order, and a Vec of boxed collections (heap addresses unrelated to listing order).
/// Returns (description, acquisition order) of every call, all over the same three locks.
fn static_orders(tc: &mut Tc<'_>) -> Vec<Vec<(String, Vec<LockId>)>> {
	use crate::props::tuplefam::mk_r;
	use happylock::collection::{BoxedLockCollection, RefLockCollection, RetryingLockCollection};
	use happylock::ThreadKey;
	let w = tc.w.clone();
	// two relations: collections over the plain locks, and everything that goes through the
	// owned unit (which borrows its members mutably, so the two never coexist)
	let mut out = Vec::new();
	let mut out_owned = Vec::new();
	let (r0, _) = mk_r(tc);
	let (r1, _) = mk_r(tc);
	let (r2, _) = mk_r(tc);
	let mut arr = [r0, r1, r2];
	macro_rules! locked_order {
		($label:expr, $c:expr, $read:expr) => {{
			let c = $c;
			let key = tc.key.take().or_else(ThreadKey::get).expect("key");
			w.begin_call(0, Class::Acquire, "order.lock", false);
			if $read {
				let g = c.read(key);
				let ops = w.end_call(0);
				out.push(($label.to_string(), acquisition_order(&ops)));
				drop(g);
			} else {
				let g = c.lock(key);
				let ops = w.end_call(0);
				out.push(($label.to_string(), acquisition_order(&ops)));
				drop(g);
			}
		}};
	}
	// sub-word neighbours: 3-byte mutexes packed into one 8-byte word (like parking_lot's
	// Mutex<u8>), listed with and against their address order
	{
		type SM = happylock::mutex::Mutex<u8, crate::audit::SmallAuditMutex>;
		let small: [SM; 4] = [SM::new(0), SM::new(1), SM::new(2), SM::new(3)];
		for m in small.iter() {
			let id = w.add_lock(false);
			w.begin_setup();
			set_reg_tag(Some(id));
			let mut k = tc.key.take().or_else(ThreadKey::get).expect("key");
			let _ = m.scoped_try_lock(&mut k, |_| ());
			tc.key = Some(k);
			set_reg_tag(None);
			w.end_setup();
		}
		macro_rules! locked_order_w {
			($label:expr, $c:expr) => {{
				let c = $c;
				let key = tc.key.take().or_else(ThreadKey::get).expect("key");
				w.begin_call(0, Class::Acquire, "order.lock", false);
				let g = c.lock(key);
				let ops = w.end_call(0);
				out.push(($label.to_string(), acquisition_order(&ops)));
				drop(g);
			}};
		}
		locked_order_w!("Boxed::try_new([&s0, &s1, &s2, &s3]) (3-byte locks)", BoxedLockCollection::try_new([&small[0], &small[1], &small[2], &small[3]]).unwrap());
		locked_order_w!("Boxed::try_new([&s3, &s2, &s1, &s0]) (3-byte locks)", BoxedLockCollection::try_new([&small[3], &small[2], &small[1], &small[0]]).unwrap());
		locked_order_w!("Boxed::try_new((&s1, &s0)) (3-byte locks)", BoxedLockCollection::try_new((&small[1], &small[0])).unwrap());
		locked_order_w!("Boxed::new_ref(&[s0..s3]) (3-byte locks)", BoxedLockCollection::new_ref(&small));
		{
			let data = [&small[2], &small[0], &small[3], &small[1]];
			locked_order_w!("Ref::try_new(&[&s2, &s0, &s3, &s1]) (3-byte locks)", RefLockCollection::try_new(&data).unwrap());
		}
		locked_order_w!("Boxed::try_new(vec![&s2, &s1]) (3-byte locks)", BoxedLockCollection::try_new(vec![&small[2], &small[1]]).unwrap());
	}
	for read in [false, true] {
		{
			let [a, b, c] = &mut arr;
			locked_order!("Boxed::new((&mut c, &mut a, &mut b))", BoxedLockCollection::new((c, a, b)), read);
		}
		{
			let [a, b, c] = &mut arr;
			locked_order!("Boxed::new([&mut b, &mut c, &mut a])", BoxedLockCollection::new([b, c, a]), read);
		}
		{
			let [a, b, c] = &mut arr;
			let inner = RetryingLockCollection::new((c, a));
			locked_order!("Boxed::new((Retrying::new((&mut c, &mut a)), &mut b))", BoxedLockCollection::new((inner, b)), read);
		}
		{
			let [a, b, c] = &mut arr;
			let v = vec![c, b, a];
			locked_order!("Boxed::new(vec![&mut c, &mut b, &mut a])", BoxedLockCollection::new(v), read);
		}
		{
			let data = (&arr[1], &arr[2], &arr[0]);
			locked_order!("Ref::try_new(&(&b, &c, &a))", RefLockCollection::try_new(&data).unwrap(), read);
		}
		{
			locked_order!("Boxed::try_new([&c, &a, &b])", BoxedLockCollection::try_new([&arr[2], &arr[0], &arr[1]]).unwrap(), read);
		}
		{
			locked_order!("Boxed::new_ref(&[a, b, c])", BoxedLockCollection::new_ref(&arr), read);
			locked_order!("Ref::new(&[a, b, c])", RefLockCollection::new(&arr), read);
		}
		{
			// an owned collection listed out of address order is ONE unit: locked directly and
			// nested (by reference) in sorting collections, reading and writing, its members
			// always come in the same (listing) order
			use happylock::collection::OwnedLockCollection;
			let [a, b, c] = &mut arr;
			let owned = OwnedLockCollection::new((c, a));
			locked_order!("Owned::new((&mut c, &mut a)) locked directly", &owned, read);
			locked_order!("Boxed::new_ref(&Owned::new((&mut c, &mut a)))", BoxedLockCollection::new_ref(&owned), read);
			locked_order!("Ref::new(&Owned::new((&mut c, &mut a)))", RefLockCollection::new(&owned), read);
			locked_order!(
				"Boxed::try_new((&Owned::new((&mut c, &mut a)), &b))",
				BoxedLockCollection::try_new((&owned, &*b)).unwrap(),
				read
			);
			let n = out.len();
			out_owned.extend(out.drain(n - 4..));
		}
	}
	vec![out, out_owned]
}

pub fn run(cfg: &RunCfg) -> Report {
	let items = ((if cfg.thorough { 60000.0 } else { 2000.0 }) * cfg.scale) as u64;
	let (mut rep, _) = par_run(cfg, items, |i, rep| {
		let mut r = Rng::new(hash64(cfg.seed ^ 0x08DE, i));
		// universe: 2..4 free leaves + up to 2 units, at most 5 members
		let fam = [Fam::R, Fam::M, Fam::Mixed, Fam::PR][r.below(4) as usize];
		let nl = r.range(2, 4) as usize;
		let mut units = Vec::new();
		let nu = r.below(3) as usize;
		for _ in 0..nu.min(5 - nl) {
			let rw = matches!(fam, Fam::R | Fam::PR);
			let kinds = if rw {
				[UnitKind::OwnedR, UnitKind::BoxedR, UnitKind::RetryR]
			} else {
				[UnitKind::OwnedM, UnitKind::BoxedM, UnitKind::RetryM]
			};
			units.push((*r.pick(&kinds), r.range(1, 3) as usize));
		}
		let arena_spec = ArenaSpec {
			leaves: (0..nl).map(|k| fam.leaf(k)).collect(),
			units,
		};
		let mut universe: Vec<MemberSpec> = (0..nl).map(MemberSpec::Leaf).collect();
		for u in 0..arena_spec.units.len() {
			universe.push(MemberSpec::Unit(u));
		}
		let readable = universe.iter().all(|m| member_readable(&arena_spec, m));
		let m = universe.len();
		let perms = permutations(m);
		let seed2 = r.next_u64();
		let keep_log = cfg.only.is_some();
		let (res, out) = solo(&arena_spec, Policy::ReaderPref, keep_log, |tc| {
			let w = tc.w.clone();
			let mut rr = Rng::new(seed2);
			// precedence relation: (a, b) -> description of a call that took a before b
			let mut before: HashMap<(LockId, LockId), String> = HashMap::new();
			let mut calls = 0u64;
			let mut pairs_checked = 0u64;
			let mut distinct_orders = std::collections::HashSet::new();
			let groups: Vec<u32> = w.g().group.clone();
			let mut junk: Vec<Box<[u8]>> = Vec::new();
			// static section: constructors over owned inputs listed out of address order
			{
				for group in static_orders(tc) {
					let mut sbefore: HashMap<(LockId, LockId), String> = HashMap::new();
					for (d, order) in group {
						calls += 1;
						for x in 0..order.len() {
							for y in x + 1..order.len() {
								let (a, b) = (order[x], order[y]);
								pairs_checked += 1;
								if let Some(other) = sbefore.get(&(b, a)) {
									w.violate(
										"C08",
										"order_inversion",
										format!("locks {a} and {b}: '{d}' acquired {a} before {b} (order {:?}) but '{other}' acquired {b} before {a}", order),
									);
								}
								sbefore.entry((a, b)).or_insert_with(|| d.clone());
							}
						}
					}
				}
			}
			for p in &perms {
				// every prefix of the permutation of length >= 2 (so sub-universes are covered)
				for len in 2..=m {
					if len < m && rr.chance(1, 2) {
						continue;
					}
					let list: Vec<MemberSpec> = p[..len].iter().map(|k| universe[*k].clone()).collect();
					let mut targets: Vec<Target> = Vec::new();
					for k in [CollKind::Boxed, CollKind::Ref] {
						targets.push(Target::Coll(k, list.clone()));
						// nested: the first j members form an inner collection of any kind
						let j = rr.range(1, len as u32) as usize;
						let k2 = *rr.pick(&CollKind::ALL);
						let mut nested = vec![MemberSpec::Nested(k2, list[..j].to_vec())];
						nested.extend(list[j..].to_vec());
						if rr.chance(1, 2) {
							nested.rotate_left(1);
						}
						targets.push(Target::Coll(k, nested));
					}
					if rr.chance(1, 4) {
						targets.push(Target::PoisColl(CollKind::Boxed, list.clone()));
					}
					for t in targets {
						let mode = if readable && rr.chance(1, 2) { Mode::Shared } else { Mode::Excl };
						let api = *rr.pick(&[Api::Guard, Api::GuardUnlock, Api::Scoped]);
						let acq = Acq {
							target: t,
							mode,
							api,
							lent: api == Api::Scoped && rr.chance(1, 2),
							panic: false,
							unwind: rr.chance(1, 6),
						};
						tc.last_ops.clear();
						// now and then a member is write-held by a holder that lets go once the
						// acquirer blocks on it: the order must not depend on what is free
						let contended = rr.chance(1, 3);
						if contended {
							let ids = expected_ids(tc.arena, &acq.target);
							if !ids.is_empty() {
								let victim = ids[rr.below(ids.len() as u32) as usize];
								w.phantom_hold(victim, Mode::Excl, 0, true);
							}
						}
						tc.run_acq(&acq);
						if contended {
							w.phantom_release_all();
						}
						calls += 1;
						// unrelated allocations between constructions
						if rr.chance(1, 3) {
							junk.push(vec![0u8; rr.range(1, 200) as usize].into_boxed_slice());
						}
						let order = acquisition_order(&tc.last_ops);
						distinct_orders.insert(hash_str(&format!("{:?}", order)));
						let d = acq_desc(&acq);
						// owned units must not be interleaved with outside locks
						let mut seen_groups: Vec<u32> = Vec::new();
						for l in &order {
							let gq = groups[*l as usize];
							if seen_groups.last() != Some(&gq) {
								if seen_groups.contains(&gq) {
									w.violate(
										"C08",
										"owned_unit_interleaved",
										format!("{d}: acquisition order {:?} re-enters owned unit group {gq}", order),
									);
								}
								seen_groups.push(gq);
							}
						}
						for x in 0..order.len() {
							for y in x + 1..order.len() {
								let (a, b) = (order[x], order[y]);
								if groups[a as usize] == groups[b as usize] {
									continue; // inside one owned unit: declaration order by design
								}
								pairs_checked += 1;
								if let Some(other) = before.get(&(b, a)) {
									w.violate(
										"C08",
										"order_inversion",
										format!(
											"locks {a} and {b}: '{d}' acquired {a} before {b} (order {:?}) but '{other}' acquired {b} before {a}",
											order
										),
									);
								}
								before.entry((a, b)).or_insert_with(|| d.clone());
							}
						}
					}
				}
			}
			(calls, pairs_checked, distinct_orders.len() as u64)
		});
		let case = format!("{} universe={}", arena_desc(&arena_spec), universe.iter().map(member_desc).collect::<Vec<_>>().join(","));
		if let Some((calls, pairs, orders)) = res {
			rep.evaluations += calls;
			rep.count("ordered_pairs_checked", pairs);
			rep.count("universes", 1);
			rep.count("distinct_acquisition_orders", orders);
			for k in 0..orders {
				rep.nontrivial.insert(hash64(hash_str(&case), k));
			}
			if rep.samples.len() < 2 {
				rep.samples.push(J::obj(vec![
					("index", J::u(i)),
					("universe", J::s(&case)),
					("collections_locked", J::u(calls)),
					("ordered_pairs_checked", J::u(pairs)),
					("distinct_acquisition_orders", J::u(orders)),
				]));
			}
		}
		rep.count("raw_ops", out.stats.raw_ops);
		rep.count("acquisitions_made_during_an_unwind", out.tstats.in_unwind);
		if let Some(a) = &out.aborted {
			rep.inconclusive.push(format!("item {i}: {:?} {}", a, out.deadlock_witness));
		}
		if let Some(m) = &out.unwound {
			rep.inconclusive.push(format!("item {i}: unexpected panic {m}"));
		}
		for v in &out.violations {
			rep.violations.push(VRec {
				prop: v.prop.into(),
				rule: v.rule.into(),
				detail: v.detail.clone(),
				signature: sig_of(v),
				case: case.clone(),
				index: i,
				log: vec![],
			});
		}
	});
	rep.rule = "per universe (2-4 leaf locks of one family + up to 2 owned/boxed/retrying units, <= 5 members): every permutation and (sampled) every prefix of length >= 2, as boxed and as ref collection, flat, with a nested boxed/ref/retrying inner collection, and poisonable-wrapped; read and write; guard/unlock/scoped; unrelated allocations in between; the order in which every call (last) took the locks it ends up holding is read from the raw-lock log (a lock given back and re-taken inside the call counts from its last acquisition) and folded into one precedence relation that must stay antisymmetric; members of an owned unit must stay contiguous; evaluations = collections locked; distinct_nontrivial = distinct (universe, acquisition order) pairs observed".into();
	rep
}
