//! C11 systematic product (solo): every API flavour x shape x mode x key style with the panic
//! injected in the critical section.
use happylock::ThreadKey;

use crate::exec::*;
use crate::json::J;
use crate::lk::{Flat, KeyArg, Lk};
use crate::prog::*;
use crate::report::*;
use crate::rng::hash_str;
use crate::solo::*;
use crate::world::*;

/// A scoped call made from a destructor while the thread is already unwinding from an earlier
/// panic; its closure panics too and the destructor contains that second panic.
struct Bomb<'x> {
	lk: &'x dyn Lk,
	mode: Mode,
	key: Option<ThreadKey>,
	lent: bool,
	outcome: &'x std::cell::Cell<u8>,
}
impl Drop for Bomb<'_> {
	fn drop(&mut self) {
		let body = |_f: Flat<'_>, _p: Option<bool>| {
			std::panic::resume_unwind(Box::new(InjectedPanic(1)));
		};
		let mut key = self.key.take().expect("bomb key");
		let lk = self.lk;
		let mode = self.mode;
		let lent = self.lent;
		let r = std::panic::catch_unwind(std::panic::AssertUnwindSafe(move || {
			if lent {
				lk.scoped(KeyArg::Lent(&mut key), mode, &body);
			} else {
				lk.scoped(KeyArg::Owned(key), mode, &body);
			}
		}));
		self.outcome.set(match r {
			Ok(()) => 1,                                      // second panic swallowed
			Err(e) if e.is::<InjectedPanic>() => 2,           // propagated, as it must
			Err(_) => 3,
		});
	}
}

pub fn run(cfg: &RunCfg) -> Report {
	let max_n = if cfg.thorough { 4 } else { 3 };
	let mut shapes = Vec::new();
	for fam in Fam::ALL {
		for n in 1..=max_n {
			for (a, t) in enum_shapes(n, fam, cfg.thorough || n <= 3) {
				shapes.push((a, t));
			}
		}
	}
	let apis: Vec<(Api, bool)> = vec![
		(Api::Guard, false),
		(Api::GuardUnlock, false),
		(Api::TryLoop, false),
		(Api::Scoped, false),
		(Api::Scoped, true),
		(Api::ScopedTry, false),
		(Api::ScopedTry, true),
	];
	// every flavour also from inside a destructor that runs during an unrelated unwind
	let apis: Vec<(Api, bool, bool)> = apis.iter().flat_map(|&(a, l)| [(a, l, false), (a, l, true)]).collect();
	let apis = &apis;
	let (mut rep, _) = par_run(cfg, shapes.len() as u64, |i, rep| {
		let (arena_spec, target) = &shapes[i as usize];
		let readable = target_readable(arena_spec, target);
		let case0 = format!("{} {}", arena_desc(arena_spec), target_desc(target));
		let (res, out) = solo(arena_spec, Policy::WriterPref, cfg.only.is_some(), |tc| {
			let w = tc.w.clone();
			let mut n = 0u64;
			for mode in [Mode::Excl, Mode::Shared] {
				if mode == Mode::Shared && !readable {
					continue;
				}
				for &(api, lent, unwind) in apis.iter() {
					let acq = Acq {
						target: target.clone(),
						mode,
						api,
						lent,
						panic: true,
						unwind,
					};
					let d = acq_desc(&acq);
					let bad_before: u32 = w.g().locks.iter().map(|l| l.bad_releases).sum();
					let r = guarded(|| tc.run_acq(&acq));
					n += 1;
					match r {
						Err(Unwound::InjectedPanic) => {}
						Ok(()) => w.violate("C11", "panic_swallowed", format!("{d}: the panic did not reach the caller")),
						Err(Unwound::Abort) => bail(),
						Err(Unwound::InjectedFault) => {}
						Err(Unwound::Other(m)) => w.violate("C11", "panic_replaced", format!("{d}: surfaced as '{m}'")),
					}
					let held = w.held(0);
					if !held.is_empty() {
						w.violate("C11", "lock_leaked_by_panic", format!("{d}: thread still holds {:?}", held));
						// clean up so the following cases are independent
						let mut g = w.g();
						for l in g.locks.iter_mut() {
							if l.excl == Some(0) {
								l.excl = None;
							}
							l.shared.retain(|t| *t != 0);
						}
					}
					let bad_after: u32 = w.g().locks.iter().map(|l| l.bad_releases).sum();
					if bad_after > bad_before {
						w.violate("C11", "released_more_than_once", format!("{d}: {} audited bad release(s) during the unwind", bad_after - bad_before));
					}
					tc.key = None;
					match ThreadKey::get() {
						Some(k) => tc.key = Some(k),
						None => {
							w.violate("C11", "key_leaked_by_panic", format!("{d}: ThreadKey::get() is None after the unwind"));
							return n;
						}
					}
					// the same scoped call made from a destructor while already unwinding
					if matches!(api, Api::Scoped) {
						let outcome = std::cell::Cell::new(0u8);
						let key = tc.key.take().or_else(ThreadKey::get);
						if let Some(key) = key {
							let t2 = target.clone();
							tc.with_lk(&t2, |_tc, lk, _| {
								let r = guarded(|| {
									let _bomb = Bomb {
										lk,
										mode,
										key: Some(key),
										lent,
										outcome: &outcome,
									};
									std::panic::resume_unwind(Box::new(InjectedPanic(7)));
								});
								let _ = r;
							});
							n += 1;
							match outcome.get() {
								2 => {}
								1 => w.violate("C11", "panic_swallowed", format!("{d}: a panic inside a scoped closure called while unwinding did not propagate")),
								x => w.violate("C11", "panic_replaced", format!("{d}: nested scoped call ended with outcome {x}")),
							}
							let held = w.held(0);
							if !held.is_empty() {
								w.violate(
									"C11",
									"lock_leaked_by_panic",
									format!("{d} called from a destructor while the thread was already unwinding: thread still holds {:?}", held),
								);
								let mut g = w.g();
								for l in g.locks.iter_mut() {
									if l.excl == Some(0) {
										l.excl = None;
									}
									l.shared.retain(|t| *t != 0);
								}
							}
							tc.key = ThreadKey::get();
						}
					}
					// waiting threads proceed = the locks can be taken again at once
					let again = Acq {
						panic: false,
						unwind: false,
						api: Api::GuardUnlock,
						lent: false,
						..acq.clone()
					};
					tc.outcomes.clear();
					tc.run_acq(&again);
					if tc.outcomes != vec![true] {
						w.violate("C11", "locks_unusable_after_panic", format!("{d}: re-acquisition outcomes {:?}", tc.outcomes));
					}
				}
			}
			n
		});
		if let Some(n) = res {
			rep.evaluations += n;
			for k in 0..n {
				rep.nontrivial.insert(hash_str(&format!("{case0}#{k}")));
			}
			if rep.samples.len() < 2 && i % 37 == 0 {
				rep.samples.push(J::obj(vec![
					("shape", J::s(&case0)),
					("cases", J::s("{write,read} x {guard, guard+unlock, try, scoped owned/lent, scoped_try owned/lent}, panic inside the section")),
				]));
			}
		}
		rep.count("panics_injected", out.tstats.panics_injected);
		if let Some(a) = &out.aborted {
			rep.violations.push(VRec {
				prop: "C11".into(),
				rule: "blocked_after_panic".into(),
				detail: format!("{:?} {}", a, out.deadlock_witness),
				signature: "C11:blocked_after_panic".into(),
				case: case0.clone(),
				index: i,
				log: out.log.clone(),
			});
		}
		if let Some(m) = &out.unwound {
			rep.violations.push(VRec {
				prop: "C11".into(),
				rule: "unexpected_panic".into(),
				detail: m.clone(),
				signature: "C11:unexpected_panic".into(),
				case: case0.clone(),
				index: i,
				log: out.log.clone(),
			});
		}
		for v in &out.violations {
			rep.violations.push(VRec {
				prop: v.prop.into(),
				rule: v.rule.into(),
				detail: v.detail.clone(),
				signature: sig_of(v),
				case: case0.clone(),
				index: i,
				log: out.log.iter().rev().take(60).rev().cloned().collect(),
			});
		}
	});
	rep.exhaustive = false;
	rep.rule = format!("systematic product: every shape of sizes 1..{max_n} (families R, M, Poisonable<R>, Poisonable<M>, mixed; single, boxed/ref/retrying in every arrangement, nested, poisonable-wrapped, owned/boxed/retrying units) x {{write, read}} x {{guard, guard+unlock, try, scoped owned key, scoped lent key, scoped_try owned, scoped_try lent}} with a typed panic raised inside the critical section (and, for scoped calls, also from a destructor that runs while the thread is already unwinding from another panic); after the unwind is caught at the client boundary: payload must be the injected one, the caller holds nothing, no release was audited as bad, the key is obtainable, and the same locks are re-acquired at once; every case is also run from inside a destructor during an unrelated unwind (the panic of the critical section is then a second, nested panic)");
	rep
}
