//! C10: poisoning tracks panics during holds, and only those.
use crate::arena::*;
use crate::exec::*;
use crate::json::J;
use crate::prog::*;
use crate::report::*;
use crate::rng::{hash64, hash_str, Rng};
use crate::solo::*;
use crate::world::*;

#[derive(Clone, Debug)]
enum Step {
	/// acquisition; optionally clear_poison(leaf) from inside the critical section
	Acq(Acq, Option<usize>),
	Clear(usize),
}

fn check_flags(tc: &Tc<'_>, when: &str) {
	let pm = tc.w.pois_snapshot();
	for (i, leaf) in tc.arena.leaves.iter().enumerate() {
		let id = tc.arena.leaf_ids[i];
		let p = match leaf {
			Leaf::PM(p) => p.is_poisoned(),
			Leaf::PR(p) => p.is_poisoned(),
			_ => continue,
		};
		if let (Some(route), false) = (pm.must.get(&id), p) {
			tc.v(
				"C10",
				"not_poisoned_after_panic",
				format!("route={route}|is_poisoned() of L{i} is false {when} although a panic unwound during an exclusive hold via {route}"),
			);
		}
		if p && !pm.may.contains(&id) {
			tc.v(
				"C10",
				"spuriously_poisoned",
				format!("is_poisoned() of L{i} is true {when} but no panic happened during a hold since the last clear"),
			);
		}
	}
}

pub fn run(cfg: &RunCfg, soak: bool) -> Report {
	let items = ((if cfg.thorough { 300_000.0 } else { 15_000.0 }) * cfg.scale) as u64;
	let (mut rep, _) = par_run(cfg, items, |i, rep| {
		let mut r = Rng::new(hash64(cfg.seed ^ 0xC10, i));
		let g = GenCfg {
			allow_panic: !soak,
			..GenCfg::default()
		};
		let mut arena_spec = gen_arena(&mut r, &g);
		// make sure poisonable leaves are present
		for k in 0..arena_spec.leaves.len() {
			if r.chance(1, 2) {
				arena_spec.leaves[k] = if arena_spec.leaves[k].is_rw() { LeafKind::PR } else { LeafKind::PM };
			}
		}
		if !arena_spec.leaves.iter().any(|l| l.is_pois()) {
			arena_spec.leaves[0] = if arena_spec.leaves[0].is_rw() { LeafKind::PR } else { LeafKind::PM };
		}
		let pois_idx: Vec<usize> = (0..arena_spec.leaves.len()).filter(|k| arena_spec.leaves[*k].is_pois()).collect();
		let len = if soak { r.range(10, 40) } else { r.range(2, 10) };
		let mut steps = Vec::new();
		for _ in 0..len {
			if !soak && r.chance(1, 6) {
				steps.push(Step::Clear(*r.pick(&pois_idx)));
			} else {
				let mut a = gen_acq(&mut r, &arena_spec, &g);
				// bias towards targets that cover a poisonable leaf
				for _ in 0..3 {
					let covers = pois_idx.iter().any(|p| target_desc(&a.target).contains(&format!("L{p}")));
					if covers {
						break;
					}
					a = gen_acq(&mut r, &arena_spec, &g);
				}
				if !soak && r.chance(1, 3) {
					a.panic = true;
				}
				let inside = if !soak && r.chance(1, 4) { Some(*r.pick(&pois_idx)) } else { None };
				steps.push(Step::Acq(a, inside));
			}
		}
		let keep_log = cfg.only.is_some();
		let (res, out) = solo(&arena_spec, Policy::ReaderPref, keep_log, |tc| {
			let w = tc.w.clone();
			let tracked: Vec<LockId> = pois_idx.iter().map(|p| tc.arena.leaf_ids[*p]).collect();
			w.pois_enable(&tracked);
			let mut panics = 0u32;
			for s in &steps {
				match s {
					Step::Clear(p) => {
						let id = tc.arena.leaf_ids[*p];
						tc.nonacq("clear_poison", || match &tc.arena.leaves[*p] {
							Leaf::PM(l) => l.clear_poison(),
							Leaf::PR(l) => l.clear_poison(),
							_ => {}
						});
						w.pois_clear(id);
						check_flags(tc, "after clear_poison");
					}
					Step::Acq(a, inside) => {
						tc.try_max = 1;
						tc.clear_inside = inside.iter().copied().collect();
						let before = tc.stats.panics_injected;
						let r = guarded(|| tc.run_acq(a));
						match r {
							Ok(()) => {
								if tc.stats.panics_injected > before {
									w.violate("C11", "panic_swallowed", format!("{}", acq_desc(a)));
								}
							}
							Err(Unwound::InjectedPanic) => {
								panics += 1;
								tc.key = None;
							}
							Err(Unwound::Abort) => bail(),
							Err(Unwound::InjectedFault) => {}
							Err(Unwound::Other(m)) => {
								// e.g. a plain lock made unusable by a user panic
								w.violate(
									"C10",
									"unexpected_panic",
									format!("{}: {m}", acq_desc(a)),
								);
								tc.key = None;
							}
						}
						check_flags(tc, &format!("after {}", acq_desc(a)));
					}
				}
			}
			let pm = w.pois_snapshot();
			(panics, pm.checks, pm.poisoned_seen)
		});
		rep.evaluations += 1;
		let case = format!(
			"{} | {}",
			arena_desc(&arena_spec),
			steps
				.iter()
				.map(|s| match s {
					Step::Acq(a, None) => acq_desc(a),
					Step::Acq(a, Some(l)) => format!("{}+clear_poison(L{l}) inside", acq_desc(a)),
					Step::Clear(p) => format!("clear_poison(L{p})"),
				})
				.collect::<Vec<_>>()
				.join(" ; ")
		);
		if let Some((panics, checks, seen)) = res {
			rep.count("panics_during_holds", panics as u64);
			rep.count("poison_verdicts_checked", checks);
			rep.count("poisoned_verdicts_seen", seen);
			if panics > 0 || soak {
				rep.nontrivial.insert(hash_str(&case));
			}
			if rep.samples.len() < 2 && panics >= 2 {
				rep.samples.push(J::obj(vec![("index", J::u(i)), ("history", J::s(&case))]));
			}
		}
		if let Some(a) = &out.aborted {
			rep.inconclusive.push(format!("item {i}: {:?} {}", a, out.deadlock_witness));
		}
		if let Some(m) = &out.unwound {
			rep.inconclusive.push(format!("item {i}: unexpected panic at top: {m}"));
		}
		for v in &out.violations {
			// signature: rule + the route that made poisoning mandatory (if any)
			let route = v
				.detail
				.strip_prefix("route=")
				.and_then(|d| d.split('|').next())
				.unwrap_or("");
			rep.violations.push(VRec {
				prop: v.prop.into(),
				rule: v.rule.into(),
				detail: v.detail.clone(),
				signature: if route.is_empty() { format!("{}:{}", v.prop, v.rule) } else { format!("{}:{}:{}", v.prop, v.rule, route) },
				case: case.clone(),
				index: i,
				log: out.log.iter().rev().take(60).rev().cloned().collect(),
			});
		}
	});
	rep.rule = if soak {
		"panic-free soak: random histories (10..40 acquisitions) over arenas with Poisonable leaves, every API flavour and collection kind; no wrapper may ever report poisoned (is_poisoned, Ok/Err of every position); distinct = distinct history".into()
	} else {
		"random histories (2..10 steps) over arenas with Poisonable<Mutex>/Poisonable<RwLock> leaves: holds via own guard / own scoped call / guard or scoped call of boxed, ref, retrying and nested collections containing them x exclusive/shared x panic or not, clear_poison between holds and from inside a live hold, subsequent acquisitions through every route; PoisonModel with must (panic during an exclusive hold) and may (any panic during any hold) bits: must => poisoned, not may => not poisoned, checked on is_poisoned() after every step and on the Ok/Err of every Poisonable position of every acquisition; guard+unlock holds whose section panics are ended through the explicit unlock function from a destructor during the unwind; one acquisition in eight is made entirely inside an unrelated unwind (its wrappers may, but need not, report poisoned afterwards); non-trivial = history with >= 1 panic during a hold".into()
	};
	rep
}
