pub mod conc;
