pub mod conc;
pub mod tryfam;
pub mod seqfam;
pub mod orderfam;
pub mod dupfam;
pub mod nonacqfam;
pub mod keyfam;
