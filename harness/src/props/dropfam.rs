//! C16: values are dropped exactly once and round-trip unchanged.
//!
//! Uses the production locks (`happylock::Mutex<T>` / `RwLock<T>` over parking_lot) so that the
//! same workload runs natively, under Miri and under valgrind memcheck.  The only monitor state
//! is a table `token id -> drops` (no addresses are remembered, so leak detectors stay honest).
use std::panic::{catch_unwind, AssertUnwindSafe};
use std::sync::{Arc, Mutex as StdMutex};

use happylock::collection::{
	BoxedLockCollection, OwnedLockCollection, RefLockCollection, RetryingLockCollection,
};
use happylock::{Mutex, Poisonable, RwLock, ThreadKey};

use crate::json::J;
use crate::report::*;
use crate::rng::hash64;

#[derive(Default)]
pub struct Registry {
	drops: StdMutex<Vec<u32>>,
}

pub struct Tok {
	id: u32,
	val: u64,
	reg: Arc<Registry>,
}

impl Drop for Tok {
	fn drop(&mut self) {
		let mut d = self.reg.drops.lock().unwrap_or_else(|p| p.into_inner());
		d[self.id as usize] += 1;
	}
}

impl std::fmt::Debug for Tok {
	fn fmt(&self, f: &mut std::fmt::Formatter<'_>) -> std::fmt::Result {
		write!(f, "Tok({}, {})", self.id, self.val)
	}
}

fn tok(reg: &Arc<Registry>) -> Tok {
	let mut d = reg.drops.lock().unwrap();
	d.push(0);
	Tok {
		id: (d.len() - 1) as u32,
		val: 0,
		reg: reg.clone(),
	}
}

fn written(id: u32, round: u64) -> u64 {
	hash64(id as u64 + 77, round)
}

type TM = Mutex<Tok>;
type TR = RwLock<Tok>;

struct Case {
	reg: Arc<Registry>,
	errs: Vec<String>,
	name: String,
}

impl Case {
	fn new(name: &str) -> Self {
		Case {
			reg: Arc::new(Registry::default()),
			errs: Vec::new(),
			name: name.to_string(),
		}
	}
	fn m(&self) -> TM {
		Mutex::new(tok(&self.reg))
	}
	fn r(&self) -> TR {
		RwLock::new(tok(&self.reg))
	}
	fn ms(&self, n: usize) -> Vec<TM> {
		(0..n).map(|_| self.m()).collect()
	}
	fn rs(&self, n: usize) -> Vec<TR> {
		(0..n).map(|_| self.r()).collect()
	}
	fn err(&mut self, rule: &str, d: String) {
		self.errs.push(format!("{rule}|{}: {d}", self.name));
	}
	/// returned value must be token `id` carrying the value written in `round`
	fn expect(&mut self, t: &Tok, id: u32, round: u64, how: &str) {
		if t.id != id {
			self.err("wrong_position", format!("{how}: expected token {id}, got token {}", t.id));
		} else if t.val != written(id, round) {
			self.err("stale_value", format!("{how}: token {id} has value {} but the last write under a lock was {}", t.val, written(id, round)));
		}
	}
	/// every token created so far has been dropped exactly once
	fn finish(mut self) -> (u64, Vec<String>) {
		let d = self.reg.drops.lock().unwrap().clone();
		for (id, n) in d.iter().enumerate() {
			if *n != 1 {
				let e = format!(
					"{}|{}: token {id} was dropped {n} time(s) ({})",
					if *n == 0 { "leaked" } else { "double_drop" },
					self.name,
					if *n == 0 { "leak" } else { "double drop" }
				);
				self.errs.push(e);
			}
		}
		(d.len() as u64, std::mem::take(&mut self.errs))
	}
}

fn key() -> ThreadKey {
	ThreadKey::get().expect("dropfam worker must own its key")
}

/// write `written(id, round)` into every token through a guard of a collection of mutexes
macro_rules! write_all_guard {
	($c:expr, $round:expr) => {{
		let k = key();
		let mut g = $c.lock(k);
		for t in g.iter_mut() {
			let id = t.id;
			t.val = written(id, $round);
		}
		drop(g);
	}};
}

fn ids_of_m(v: &mut [TM]) -> Vec<u32> {
	v.iter_mut().map(|m| m.get_mut().id).collect()
}
fn ids_of_r(v: &mut [TR]) -> Vec<u32> {
	v.iter_mut().map(|m| m.get_mut().id).collect()
}

fn case_vec_kinds(n: usize, variant: u32) -> (u64, Vec<String>) {
	let mut c = Case::new(&format!("vec n={n} variant={variant}"));
	let mut data = c.ms(n);
	let ids = ids_of_m(&mut data);
	match variant {
		0 => {
			// Boxed::new -> lock -> write -> into_inner
			let col = BoxedLockCollection::new(data);
			write_all_guard!(col, 1);
			let inner = col.into_inner();
			if inner.len() != n {
				c.err("arity", format!("Boxed::into_inner returned {} values", inner.len()));
			}
			for (t, id) in inner.iter().zip(&ids) {
				c.expect(t, *id, 1, "Boxed<Vec>::into_inner");
			}
		}
		1 => {
			let col = RetryingLockCollection::new(data);
			write_all_guard!(col, 1);
			// scoped write, second round
			col.scoped_lock(key(), |d| {
				for t in d.into_vec() {
					let id = t.id;
					t.val = written(id, 2);
				}
			});
			let inner = col.into_inner();
			for (t, id) in inner.iter().zip(&ids) {
				c.expect(t, *id, 2, "Retrying<Vec>::into_inner");
			}
		}
		2 => {
			let mut col = OwnedLockCollection::new(data);
			write_all_guard!(col, 1);
			for t in col.get_mut().into_vec() {
				let id = t.id;
				t.val = written(id, 3);
			}
			let inner = col.into_inner();
			for (t, id) in inner.iter().zip(&ids) {
				c.expect(t, *id, 3, "Owned<Vec>::get_mut + into_inner");
			}
		}
		3 => {
			// into_child, then the child is consumed element-wise
			let col = BoxedLockCollection::new(data);
			write_all_guard!(col, 1);
			let child: Vec<TM> = col.into_child();
			for (m, id) in child.into_iter().zip(&ids) {
				let t = m.into_inner();
				c.expect(&t, *id, 1, "Boxed<Vec>::into_child");
			}
		}
		4 => {
			// new_ref: the collection borrows, the data outlives it
			let col = BoxedLockCollection::new_ref(&data);
			write_all_guard!(col, 1);
			drop(col);
			let col = RefLockCollection::new(&data);
			write_all_guard!(col, 2);
			drop(col);
			let col = RetryingLockCollection::new_ref(&data);
			write_all_guard!(col, 3);
			drop(col);
			for (m, id) in data.into_iter().zip(&ids) {
				let t = m.into_inner();
				c.expect(&t, *id, 3, "new_ref collections then Mutex::into_inner");
			}
		}
		5 => {
			// into_iter fully consumed
			let col = RetryingLockCollection::new(data);
			write_all_guard!(col, 1);
			for (m, id) in col.into_iter().zip(&ids) {
				let t = m.into_inner();
				c.expect(&t, *id, 1, "Retrying<Vec>::into_iter");
			}
		}
		6 => {
			// into_iter partially consumed
			let col = BoxedLockCollection::new(data);
			write_all_guard!(col, 1);
			let mut it = col.into_iter();
			if let Some(m) = it.next() {
				let t = m.into_inner();
				c.expect(&t, ids[0], 1, "Boxed<Vec>::into_iter first element");
			}
			drop(it);
		}
		7 => {
			let col = OwnedLockCollection::new(data);
			let mut it = col.into_iter();
			let _ = it.next();
			let _ = it.next();
			drop(it);
		}
		8 => {
			// from / from_iter / extend / default
			let col: RetryingLockCollection<Vec<TM>> = data.into_iter().collect();
			let mut col = col;
			let extra = c.ms(2);
			col.extend(extra);
			write_all_guard!(col, 1);
			drop(col);
			let col: OwnedLockCollection<Vec<TM>> = c.ms(n).into_iter().collect();
			let mut col = col;
			col.extend(c.ms(1));
			drop(col);
			let col: BoxedLockCollection<Vec<TM>> = c.ms(n).into_iter().collect();
			write_all_guard!(col, 1);
			drop(col);
			let col = BoxedLockCollection::from(c.ms(n));
			drop(col);
			let col = RetryingLockCollection::from(c.ms(n));
			drop(col);
			let col = OwnedLockCollection::from(c.ms(n));
			drop(col);
			let d: BoxedLockCollection<Vec<TM>> = Default::default();
			drop(d);
			let d: RetryingLockCollection<Vec<TM>> = Default::default();
			drop(d);
			let d: OwnedLockCollection<Vec<TM>> = Default::default();
			drop(d);
		}
		9 => {
			// child_mut replacement drops the old child exactly once
			let mut col = OwnedLockCollection::new(data);
			let fresh = c.ms(n);
			*col.child_mut() = fresh;
			drop(col);
			let mut col = RetryingLockCollection::new(c.ms(n));
			let fresh = c.ms(1);
			*col.child_mut() = fresh;
			write_all_guard!(col, 1);
			drop(col);
		}
		10 => {
			// plain drop of every kind, with boxed slices
			let b: Box<[TM]> = data.into_boxed_slice();
			let col = BoxedLockCollection::new(b);
			write_all_guard!(col, 1);
			let child: Box<[TM]> = col.into_child();
			let col = RetryingLockCollection::new(child);
			let inner = col.into_inner();
			for (t, id) in inner.iter().zip(&ids) {
				c.expect(t, *id, 1, "Box<[T]> through Boxed::into_child and Retrying::into_inner");
			}
			drop(inner);
			let col = OwnedLockCollection::new(c.ms(n).into_boxed_slice());
			drop(col);
		}
		11 => {
			// &mut containers
			let mut data = data;
			{
				let col = OwnedLockCollection::new(&mut data);
				write_all_guard!(col, 1);
				let back: &mut Vec<TM> = col.into_child();
				let _ = back.len();
			}
			{
				let col = BoxedLockCollection::new(&mut data);
				write_all_guard!(col, 2);
				drop(col);
			}
			{
				let col = RetryingLockCollection::new(&mut data);
				write_all_guard!(col, 3);
				drop(col);
			}
			for (m, id) in data.into_iter().zip(&ids) {
				let t = m.into_inner();
				c.expect(&t, *id, 3, "&mut Vec through all three kinds");
			}
		}
		12 => {
			// collections dropped by an unwind (a panic in the owning frame, and a panic inside a
			// scoped closure): their values are still dropped exactly once
			let r = catch_unwind(AssertUnwindSafe(|| {
				let _a = BoxedLockCollection::new(c.ms(n));
				let _b = RetryingLockCollection::new(c.rs(n));
				let _c = OwnedLockCollection::new(c.ms(n).into_boxed_slice());
				let _d = BoxedLockCollection::new((c.m(), OwnedLockCollection::new(c.rs(n))));
				let data = c.ms(n);
				let _e = RefLockCollection::new(&data);
				std::panic::resume_unwind(Box::new(0u8));
			}));
			let _ = r;
			let r = catch_unwind(AssertUnwindSafe(|| {
				let col = BoxedLockCollection::new(c.ms(n + 1));
				col.scoped_lock(key(), |_| std::panic::resume_unwind(Box::new(0u8)));
			}));
			let _ = r;
			let r = catch_unwind(AssertUnwindSafe(|| {
				let col = BoxedLockCollection::new(c.rs(n + 1));
				let _g = col.read(key());
				std::panic::resume_unwind(Box::new(0u8));
			}));
			let _ = r;
			drop(data);
		}
		_ => {
			// try_new accept (references) and reject (a duplicate next to owned values)
			let extra = c.m();
			let refs: Vec<&TM> = data.iter().collect();
			let col = BoxedLockCollection::try_new(refs);
			if col.is_none() {
				c.err("false_duplicate", "Boxed::try_new(Vec<&Mutex>) rejected distinct locks".into());
			}
			drop(col);
			let refs: Vec<&TM> = data.iter().collect();
			let col = RetryingLockCollection::try_new(refs);
			drop(col);
			let col = RefLockCollection::try_new(&data);
			drop(col);
			// reject: the input owns two fresh mutexes and lists `extra` twice
			let owned_a = c.m();
			let owned_b = c.r();
			let rejected = BoxedLockCollection::try_new((owned_a, &extra, owned_b, &extra));
			if rejected.is_some() {
				c.err("duplicate_accepted", "Boxed::try_new accepted (&extra, &extra)".into());
			}
			drop(rejected);
			let owned_a = c.m();
			let rejected = RetryingLockCollection::try_new((owned_a, &extra, &extra));
			if rejected.is_some() {
				c.err("duplicate_accepted", "Retrying::try_new accepted (&extra, &extra)".into());
			}
			drop(rejected);
			let tup = (c.m(), &extra, &extra);
			let rejected = RefLockCollection::try_new(&tup);
			if rejected.is_some() {
				c.err("duplicate_accepted", "Ref::try_new accepted (&extra, &extra)".into());
			}
			drop(rejected);
			drop(tup);
			drop(data);
			drop(extra);
		}
	}
	c.finish()
}

macro_rules! array_case {
	($c:ident, $n:literal) => {{
		let arr: [TM; $n] = std::array::from_fn(|_| $c.m());
		let mut arr = arr;
		let ids: Vec<u32> = arr.iter_mut().map(|m| m.get_mut().id).collect();
		let col = BoxedLockCollection::new(arr);
		{
			let mut g = col.lock(key());
			for t in g.iter_mut() {
				let id = t.id;
				t.val = written(id, 1);
			}
		}
		col.scoped_lock(key(), |d| {
			for t in d {
				let id = t.id;
				t.val = written(id, 2);
			}
		});
		let inner: [Tok; $n] = col.into_inner();
		for (t, id) in inner.iter().zip(&ids) {
			$c.expect(t, *id, 2, concat!("Boxed<[Mutex; ", stringify!($n), "]>::into_inner"));
		}
		drop(inner);
		// rwlock array through the retrying + owned collections, read guards too
		let arr: [TR; $n] = std::array::from_fn(|_| $c.r());
		let mut arr = arr;
		let ids: Vec<u32> = arr.iter_mut().map(|m| m.get_mut().id).collect();
		let mut col = RetryingLockCollection::new(arr);
		{
			let mut g = col.lock(key());
			for t in g.iter_mut() {
				let id = t.id;
				t.val = written(id, 1);
			}
		}
		{
			let g = col.read(key());
			for (t, id) in g.iter().zip(&ids) {
				$c.expect(&**t, *id, 1, "read guard of Retrying<[RwLock; N]>");
			}
		}
		{
			let got = col.get_mut();
			for (t, id) in got.into_iter().zip(&ids) {
				if t.id != *id {
					$c.err("wrong_position", format!("get_mut position of token {id} yields {}", t.id));
				}
				t.val = written(*id, 5);
			}
		}
		let child: [TR; $n] = col.into_child();
		let col = OwnedLockCollection::new(child);
		let inner: [Tok; $n] = col.into_inner();
		for (t, id) in inner.iter().zip(&ids) {
			$c.expect(t, *id, 5, "[RwLock; N] get_mut, into_child, Owned::into_inner");
		}
	}};
}

fn case_arrays(n: usize) -> (u64, Vec<String>) {
	let mut c = Case::new(&format!("array n={n}"));
	match n {
		0 => array_case!(c, 0),
		1 => array_case!(c, 1),
		2 => array_case!(c, 2),
		3 => array_case!(c, 3),
		_ => array_case!(c, 4),
	}
	c.finish()
}

fn case_tuples(variant: u32) -> (u64, Vec<String>) {
	let mut c = Case::new(&format!("tuple variant={variant}"));
	match variant {
		0 => {
			let t = (c.m(),);
			let mut t = t;
			let id0 = t.0.get_mut().id;
			let col = BoxedLockCollection::new(t);
			{
				let mut g = col.lock(key());
				g.0.val = written(id0, 1);
			}
			let (a,) = col.into_inner();
			c.expect(&a, id0, 1, "Boxed<(Mutex,)>::into_inner");
		}
		1 => {
			let mut t = (c.m(), c.r(), c.m());
			let ids = [t.0.get_mut().id, t.1.get_mut().id, t.2.get_mut().id];
			let col = RetryingLockCollection::new(t);
			{
				let mut g = col.lock(key());
				g.0.val = written(ids[0], 1);
				g.1.val = written(ids[1], 1);
				g.2.val = written(ids[2], 1);
			}
			let (a, b, d) = col.into_inner();
			c.expect(&a, ids[0], 1, "Retrying<(M,R,M)>::into_inner .0");
			c.expect(&b, ids[1], 1, "Retrying<(M,R,M)>::into_inner .1");
			c.expect(&d, ids[2], 1, "Retrying<(M,R,M)>::into_inner .2");
		}
		2 => {
			// arity 7, mixed, through owned + get_mut
			let mut t = (c.m(), c.r(), c.m(), c.r(), c.m(), c.r(), c.m());
			let ids = [
				t.0.get_mut().id,
				t.1.get_mut().id,
				t.2.get_mut().id,
				t.3.get_mut().id,
				t.4.get_mut().id,
				t.5.get_mut().id,
				t.6.get_mut().id,
			];
			let mut col = OwnedLockCollection::new(t);
			col.scoped_lock(key(), |d| {
				d.0.val = written(ids[0], 1);
				d.1.val = written(ids[1], 1);
				d.2.val = written(ids[2], 1);
				d.3.val = written(ids[3], 1);
				d.4.val = written(ids[4], 1);
				d.5.val = written(ids[5], 1);
				d.6.val = written(ids[6], 1);
			});
			{
				let g = col.get_mut();
				g.3.val = written(ids[3], 9);
			}
			let (a, b, d, e, f, g, h) = col.into_inner();
			c.expect(&a, ids[0], 1, "arity 7 .0");
			c.expect(&b, ids[1], 1, "arity 7 .1");
			c.expect(&d, ids[2], 1, "arity 7 .2");
			c.expect(&e, ids[3], 9, "arity 7 .3 (get_mut)");
			c.expect(&f, ids[4], 1, "arity 7 .4");
			c.expect(&g, ids[5], 1, "arity 7 .5");
			c.expect(&h, ids[6], 1, "arity 7 .6");
		}
		3 => {
			// nested: Boxed<(Owned<Vec<M>>, Retrying<[R; 2]>, M)>
			let mut inner_vec = c.ms(2);
			let vids = ids_of_m(&mut inner_vec);
			let mut arr: [TR; 2] = [c.r(), c.r()];
			let aids = ids_of_r(&mut arr);
			let mut single = c.m();
			let sid = single.get_mut().id;
			let col = BoxedLockCollection::new((
				OwnedLockCollection::new(inner_vec),
				RetryingLockCollection::new(arr),
				single,
			));
			{
				let mut g = col.lock(key());
				for t in g.0.iter_mut() {
					let id = t.id;
					t.val = written(id, 1);
				}
				for t in g.1.iter_mut() {
					let id = t.id;
					t.val = written(id, 1);
				}
				g.2.val = written(sid, 1);
			}
			let (v, a, s) = col.into_inner();
			for (t, id) in v.iter().zip(&vids) {
				c.expect(t, *id, 1, "nested owned vec");
			}
			for (t, id) in a.iter().zip(&aids) {
				c.expect(t, *id, 1, "nested retrying array");
			}
			c.expect(&s, sid, 1, "nested single");
		}
		4 => {
			// Poisonable: into_inner / into_child, Ok and poisoned
			let p = Poisonable::new(c.m());
			{
				let mut g = p.lock(key()).unwrap();
				let id = g.id;
				g.val = written(id, 1);
			}
			match p.into_inner() {
				Ok(t) => {
					let id = t.id;
					c.expect(&t, id, 1, "Poisonable::into_inner Ok");
				}
				Err(_) => c.err("spuriously_poisoned", "into_inner".into()),
			}
			let p = Poisonable::new(c.m());
			let r = catch_unwind(AssertUnwindSafe(|| {
				let mut g = p.lock(key()).unwrap();
				let id = g.id;
				g.val = written(id, 2);
				std::panic::resume_unwind(Box::new(0u8));
			}));
			let _ = r;
			match p.into_inner() {
				Ok(_) => c.err("not_poisoned", "into_inner after a panic under the guard returned Ok".into()),
				Err(e) => {
					let t = e.into_inner();
					let id = t.id;
					c.expect(&t, id, 2, "Poisonable::into_inner poisoned");
				}
			}
			let p = Poisonable::new(c.r());
			match p.into_child() {
				Ok(l) => drop(l.into_inner()),
				Err(_) => c.err("spuriously_poisoned", "into_child".into()),
			}
			let mut p = Poisonable::new(c.m());
			let r = catch_unwind(AssertUnwindSafe(|| {
				p.scoped_lock(key(), |_| std::panic::resume_unwind(Box::new(0u8)));
			}));
			let _ = r;
			let _ = p.get_mut().is_err();
			match p.into_child() {
				Ok(_) => c.err("not_poisoned", "into_child after a panic in scoped_lock returned Ok".into()),
				Err(e) => drop(e.into_inner()),
			}
			// Poisonable inside collections
			let col = BoxedLockCollection::new((Poisonable::new(c.m()), Poisonable::new(c.r())));
			{
				let g = col.lock(key());
				let _ = g.0.is_ok();
			}
			let (a, b) = col.into_inner();
			drop(a);
			drop(b);
		}
		5 => {
			// mixed references and owned in try_new (accept)
			let x = c.m();
			let y = c.r();
			let col = BoxedLockCollection::try_new((c.m(), &x, c.r(), &y)).expect("distinct");
			{
				let g = col.lock(key());
				let _ = g.0.id;
			}
			let (a, _, b, _) = col.into_child();
			drop(a.into_inner());
			drop(b);
			let col = RetryingLockCollection::try_new((&x, c.m(), &y)).expect("distinct");
			drop(col);
			drop(x);
			drop(y);
		}
		_ => {
			// LockCollection of collections by reference, AsRef/iter accessors do not drop
			let v = c.ms(3);
			let col = BoxedLockCollection::new(v);
			let n1 = col.iter().count();
			let n2 = col.child().len();
			let s: &[TM] = col.as_ref();
			if n1 != 3 || n2 != 3 || s.len() != 3 {
				c.err("arity", "accessors".into());
			}
			let col2 = RefLockCollection::new(&col);
			{
				let g = col2.lock(key());
				let _ = g.len();
			}
			drop(col2);
			drop(col);
		}
	}
	c.finish()
}

/// leaks the thread's key (forgotten guard): must run on a throw-away thread
fn case_forgotten_guard(n: usize, variant: u32) -> (u64, Vec<String>) {
	let c = Case::new(&format!("forgotten guard n={n} variant={variant}"));
	match variant {
		0 => {
			let col = BoxedLockCollection::new(c.ms(n));
			let g = col.lock(key());
			std::mem::forget(g);
			drop(col);
		}
		1 => {
			let col = RetryingLockCollection::new(c.rs(n));
			let g = col.read(key());
			std::mem::forget(g);
			let inner = col.into_inner();
			drop(inner);
		}
		2 => {
			let col = OwnedLockCollection::new(c.ms(n));
			let g = col.lock(key());
			std::mem::forget(g);
			let child = col.into_child();
			drop(child);
		}
		3 => {
			let m = c.m();
			let g = m.lock(key());
			std::mem::forget(g);
			drop(m.into_inner());
		}
		_ => {
			// tuple guard: no heap allocation inside the forgotten guard
			let col = BoxedLockCollection::new((c.m(), c.r()));
			let g = col.lock(key());
			std::mem::forget(g);
			let (a, b) = col.into_inner();
			drop(a);
			drop(b);
		}
	}
	c.finish()
}

/// Locks that have been KILLED (`RawLock::poison`, which is what happens when one of their raw
/// operations panics) are consumed / dropped inside every kind of container: the values must still
/// come back at their positions and every token is dropped exactly once.  Nothing here locks.
fn case_killed(n: usize, variant: u32) -> (u64, Vec<String>) {
	use happylock::lockable::RawLock;
	let mut c = Case::new(&format!("killed member n={n} variant={variant}"));
	let kill = (variant as usize / 8) % n.max(1);
	let mut data = c.ms(n);
	let ids = ids_of_m(&mut data);
	for m in data.iter_mut() {
		let t = m.get_mut();
		t.val = written(t.id, 1);
	}
	if n > 0 {
		data[kill].poison();
	}
	match variant % 8 {
		0 => {
			let col = BoxedLockCollection::new(data);
			let inner = col.into_inner();
			for (t, id) in inner.iter().zip(&ids) {
				c.expect(t, *id, 1, "Boxed<Vec>::into_inner with a killed member");
			}
			if inner.len() != n {
				c.err("arity", format!("into_inner returned {} values", inner.len()));
			}
		}
		1 => {
			let col = OwnedLockCollection::new(data.into_boxed_slice());
			let inner = col.into_inner();
			for (t, id) in inner.iter().zip(&ids) {
				c.expect(t, *id, 1, "Owned<Box<[T]>>::into_inner with a killed member");
			}
		}
		2 => {
			let col = RetryingLockCollection::new(data);
			let child = col.into_child();
			for (m, id) in child.into_iter().zip(&ids) {
				let t = m.into_inner();
				c.expect(&t, *id, 1, "Retrying::into_child + Mutex::into_inner of a killed lock");
			}
		}
		3 => {
			if n == 3 {
				let mut it = data.into_iter();
				let arr = [it.next().unwrap(), it.next().unwrap(), it.next().unwrap()];
				let col = OwnedLockCollection::new(arr);
				let inner = col.into_inner();
				for (t, id) in inner.iter().zip(&ids) {
					c.expect(t, *id, 1, "Owned<[T; 3]>::into_inner with a killed member");
				}
			} else if n == 2 {
				let mut it = data.into_iter();
				let r = c.r();
				let rid = r.read(key()).id;
				r.poison();
				let tup = (it.next().unwrap(), r, it.next().unwrap());
				let col = BoxedLockCollection::new(tup);
				let (a, b, d) = col.into_inner();
				c.expect(&a, ids[0], 1, "Boxed<(M,R,M)>::into_inner .0");
				if b.id != rid {
					c.err("wrong_position", format!("tuple .1 is token {}", b.id));
				}
				c.expect(&d, ids[1], 1, "Boxed<(M,R,M)>::into_inner .2");
			} else {
				drop(data);
			}
		}
		4 => {
			// get_mut / child_mut / iter_mut reach the values of killed locks without locking
			let mut col = RetryingLockCollection::new(data);
			for (t, id) in col.get_mut().into_vec().into_iter().zip(&ids) {
				c.expect(t, *id, 1, "Retrying::get_mut with a killed member");
				t.val = written(*id, 2);
			}
			for (t, id) in col.into_inner().iter().zip(&ids) {
				c.expect(t, *id, 2, "Retrying::into_inner after get_mut, killed member");
			}
		}
		5 => {
			// Poisonable over a killed lock
			let mut ps: Vec<Poisonable<TM>> = data.into_iter().map(Poisonable::new).collect();
			for (p, id) in ps.iter_mut().zip(&ids) {
				match p.get_mut() {
					Ok(t) => c.expect(t, *id, 1, "Poisonable::get_mut over a killed lock"),
					Err(_) => c.err("spuriously_poisoned", "Poisonable over a killed (not poisoned) lock reports poisoned".into()),
				}
			}
			for (p, id) in ps.into_iter().zip(&ids) {
				match p.into_inner() {
					Ok(t) => c.expect(&t, *id, 1, "Poisonable::into_inner over a killed lock"),
					Err(e) => c.expect(&e.into_inner(), *id, 1, "Poisonable::into_inner (Err) over a killed lock"),
				}
			}
		}
		6 => {
			// plain drop of a collection with a killed member; and of one dropped by an unwind
			let col = BoxedLockCollection::new(data);
			let r = catch_unwind(AssertUnwindSafe(move || {
				let _c = col;
				std::panic::resume_unwind(Box::new(7u8));
			}));
			let _ = r;
		}
		_ => {
			// rwlocks
			let mut rs = c.rs(n);
			let rids = ids_of_r(&mut rs);
			for r in rs.iter_mut() {
				let t = r.get_mut();
				t.val = written(t.id, 1);
			}
			if n > 0 {
				rs[kill].poison();
			}
			let col = OwnedLockCollection::new(rs);
			for (t, id) in col.into_inner().iter().zip(&rids) {
				c.expect(t, *id, 1, "Owned<Vec<RwLock>>::into_inner with a killed member");
			}
			drop(data);
		}
	}
	c.finish()
}

/// Constructors / growers that consume an iterator, with an iterator that PANICS part way
/// (caught by the caller): whatever the collection owned before and whatever the iterator had
/// already yielded is dropped exactly once, and the collection - if it survives - is still usable.
fn case_panicking_iter(n: usize, variant: u32) -> (u64, Vec<String>) {
	let mut c = Case::new(&format!("panicking iterator n={n} variant={variant}"));
	let fail_after = (variant as usize / 6) % (n + 1);
	let reg = c.reg.clone();
	let feed = move |k: usize| {
		let reg = reg.clone();
		(0..k + 1).map(move |i| {
			if i == k {
				std::panic::resume_unwind(Box::new(11u8));
			}
			Mutex::new(tok(&reg))
		})
	};
	match variant % 6 {
		0 => {
			let mut col = RetryingLockCollection::new(c.ms(n));
			let ids: Vec<u32> = col.get_mut().iter().map(|t| t.id).collect();
			let r = catch_unwind(AssertUnwindSafe(|| col.extend(feed(fail_after))));
			if r.is_ok() {
				c.err("panic_swallowed", "extend swallowed the iterator's panic".into());
			}
			// the members it had before are still there, in place, and usable
			write_all_guard!(col, 1);
			let inner = col.into_inner();
			for (t, id) in inner.iter().zip(&ids) {
				c.expect(t, *id, 1, "Retrying::extend(panicking iterator), then lock + into_inner");
			}
		}
		1 => {
			let mut col = OwnedLockCollection::new(c.ms(n));
			let ids: Vec<u32> = col.get_mut().iter().map(|t| t.id).collect();
			let r = catch_unwind(AssertUnwindSafe(|| col.extend(feed(fail_after))));
			if r.is_ok() {
				c.err("panic_swallowed", "extend swallowed the iterator's panic".into());
			}
			write_all_guard!(col, 1);
			let inner = col.into_inner();
			for (t, id) in inner.iter().zip(&ids) {
				c.expect(t, *id, 1, "Owned::extend(panicking iterator), then lock + into_inner");
			}
		}
		2 => {
			let r = catch_unwind(AssertUnwindSafe(|| {
				let col: RetryingLockCollection<Vec<TM>> = feed(fail_after).collect();
				drop(col);
			}));
			let _ = r;
		}
		3 => {
			let r = catch_unwind(AssertUnwindSafe(|| {
				let col: OwnedLockCollection<Vec<TM>> = feed(fail_after).collect();
				drop(col);
			}));
			let _ = r;
		}
		4 => {
			let r = catch_unwind(AssertUnwindSafe(|| {
				let col: BoxedLockCollection<Vec<TM>> = feed(fail_after).collect();
				drop(col);
			}));
			let _ = r;
		}
		_ => {
			// an ordinary iterator, for comparison: everything arrives
			let mut col = RetryingLockCollection::new(c.ms(n));
			let reg = c.reg.clone();
			col.extend((0..fail_after).map(move |_| Mutex::new(tok(&reg))));
			write_all_guard!(col, 1);
			let inner = col.into_inner();
			if inner.len() != n + fail_after {
				c.err("arity", format!("extend: {} values after adding {fail_after} to {n}", inner.len()));
			}
		}
	}
	c.finish()
}

fn signature(e: &str) -> (String, String) {
	let rule = e.split('|').next().unwrap_or("drop").to_string();
	(rule.clone(), format!("C16:{rule}"))
}

pub fn run(cfg: &RunCfg) -> Report {
	// (kind, a, b)
	let mut cases: Vec<(u32, usize, u32)> = Vec::new();
	let reps = if cfg.thorough { 8 } else { 2 };
	for _ in 0..reps {
		for n in 0..=4usize {
			for variant in 0..=13u32 {
				cases.push((0, n, variant));
			}
			cases.push((1, n, 0));
			for variant in 0..5u32 {
				// a forgotten guard that owns a Box<[..]> leaks that box by the test's own
				// doing; under leak detectors only the allocation-free guards are forgotten
				if (cfg.miri || cfg.leakcheck) && variant < 3 {
					continue;
				}
				cases.push((3, n, variant));
			}
		}
		for variant in 0..=6u32 {
			cases.push((2, 0, variant));
		}
		for n in 1..=4usize {
			for variant in 0..(8 * n as u32) {
				cases.push((4, n, variant));
			}
		}
		for n in 0..=3usize {
			for variant in 0..(6 * (n as u32 + 1)) {
				cases.push((5, n, variant));
			}
		}
	}
	if cfg.miri || cfg.leakcheck {
		// one pass is plenty under the interpreter / valgrind
		cases.truncate(cases.len() / reps);
	}
	let cases = &cases;
	let (mut rep, _) = par_run(cfg, cases.len() as u64, |i, rep| {
		let (kind, n, variant) = cases[i as usize];
		let job = move || match kind {
			0 => case_vec_kinds(n, variant),
			1 => case_arrays(n),
			2 => case_tuples(variant),
			4 => case_killed(n, variant),
			5 => case_panicking_iter(n, variant),
			_ => case_forgotten_guard(n, variant),
		};
		let r = if kind == 3 {
			crate::solo::on_fresh_thread(move || catch_unwind(AssertUnwindSafe(job)))
		} else {
			// make sure the worker's key is available
			match ThreadKey::get() {
				Some(k) => {
					drop(k);
					catch_unwind(AssertUnwindSafe(job))
				}
				None => crate::solo::on_fresh_thread(move || catch_unwind(AssertUnwindSafe(job))),
			}
		};
		rep.evaluations += 1;
		let name = format!("kind={kind} n={n} variant={variant}");
		match r {
			Ok((tokens, errs)) => {
				rep.count("tokens_tracked", tokens);
				rep.nontrivial.insert(hash64(kind as u64 * 1000 + n as u64 * 100 + variant as u64, 0));
				if rep.samples.len() < 3 && variant % 5 == 1 {
					rep.samples.push(J::obj(vec![("case", J::s(&name)), ("tokens", J::u(tokens)), ("errors", J::u(errs.len() as u64))]));
				}
				for e in errs {
					let (rule, sig) = signature(&e);
					rep.violations.push(VRec {
						prop: "C16".into(),
						rule,
						detail: e,
						signature: sig,
						case: name.clone(),
						index: i,
						log: vec![],
					});
				}
			}
			Err(p) => {
				let m = p
					.downcast_ref::<String>()
					.cloned()
					.or_else(|| p.downcast_ref::<&str>().map(|s| s.to_string()))
					.unwrap_or_else(|| "<panic>".into());
				rep.violations.push(VRec {
					prop: "C16".into(),
					rule: "unexpected_panic".into(),
					detail: m,
					signature: "C16:unexpected_panic".into(),
					case: name,
					index: i,
					log: vec![],
				});
			}
		}
	});
	rep.rule = "drop-counting tokens (unique id per construction, table id -> drops) through every construction/destruction path: Vec / Box<[T]> / [T; 0..4] / tuples of arity 1, 3, 4, 7 / nested collections / &mut containers x boxed, ref, owned, retrying collections x {new, new_ref, try_new accept and reject (owned values next to a duplicate reference), from, from_iter, default, extend, into_child, into_inner, into_iter fully and partially consumed, child_mut replacement, get_mut, plain drop, drop by an unwind (panic in the owning frame / in a scoped closure / under a guard), drop after a guard was forgotten, Poisonable into_inner/into_child Ok and poisoned, and into_inner / into_child / get_mut / drop of containers one of whose locks has been KILLED (RawLock::poison) at every position, extend / from_iter fed by an iterator that panics part way (caught)}; values are written under a lock (guard and scoped) first and must come back at their declared positions with the last written value; every token must be dropped exactly once; distinct = distinct (path, size) cases".into();
	rep
}
