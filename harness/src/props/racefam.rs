//! Free-running workload on the PRODUCTION locks (parking_lot) for the sanitizer lanes of C02
//! (and as a native stress pass): the same binary runs natively, under Miri and under TSan.
//!
//! Payloads are plain (non-atomic) fields; a writer bumps `a`, spins/yields, bumps `b`; every
//! section asserts `a == b`.  In-section monitors use Relaxed atomics only (no happens-before
//! edges), so a sanitizer sees exactly the synchronisation a user gets from happylock.
use std::sync::atomic::{AtomicU64, AtomicUsize, Ordering::Relaxed};

use happylock::collection::{
	BoxedLockCollection, OwnedLockCollection, RefLockCollection, RetryingLockCollection,
};
use happylock::{Mutex, Poisonable, RwLock, ThreadKey};

use crate::json::J;
use crate::report::*;
use crate::rng::{hash64, Rng};

#[derive(Default, Debug)]
pub struct P {
	a: u64,
	b: u64,
}

const NM: usize = 3;
const NR: usize = 3;
const NF: usize = 3;

/// Data that lives OUTSIDE its lock: the lock is a zero-sized token (`Mutex<()>`, the forks of
/// the dining philosophers) and the program relies on it for exclusion.
#[derive(Default)]
struct Outside(std::cell::UnsafeCell<P>);
// safety (of the workload, as a user would argue it): only touched while the token lock is held
unsafe impl Sync for Outside {}

struct Shared {
	m: [Mutex<P>; NM],
	r: [RwLock<P>; NR],
	pm: Poisonable<Mutex<P>>,
	owned: OwnedLockCollection<(Mutex<P>, RwLock<P>)>,
	owned_r: OwnedLockCollection<(RwLock<P>, RwLock<P>)>,
	boxed: BoxedLockCollection<Vec<RwLock<P>>>,
	retry: RetryingLockCollection<[Mutex<P>; 2]>,
	/// zero-sized token locks and the data they guard by convention
	forks: [Mutex<()>; NF],
	fork_data: [Outside; NF],
	/// expected number of increments per payload slot (Relaxed counters)
	want: [AtomicU64; 20],
	/// threads currently inside a shared section of r[i] (overlap statistics only)
	readers: [AtomicUsize; NR],
	max_readers: AtomicUsize,
	torn: AtomicU64,
	sections: AtomicU64,
	try_failures: AtomicU64,
	/// per worker: op code * 10000 + i * 100 + j, and ops completed (stall diagnosis only)
	trace: [AtomicU64; 16],
	done_ops: [AtomicU64; 16],
	finished: AtomicUsize,
}

fn pause(r: &mut Rng) {
	match r.below(4) {
		0 => std::thread::yield_now(),
		1 => {
			for _ in 0..r.below(40) {
				std::hint::spin_loop();
			}
		}
		_ => {}
	}
}

fn wr(s: &Shared, p: &mut P, slot: usize, r: &mut Rng) {
	if p.a != p.b {
		s.torn.fetch_add(1, Relaxed);
	}
	p.a += 1;
	pause(r);
	p.b += 1;
	s.want[slot].fetch_add(1, Relaxed);
	s.sections.fetch_add(1, Relaxed);
}

fn rd(s: &Shared, p: &P, ridx: Option<usize>, r: &mut Rng) {
	if let Some(i) = ridx {
		let n = s.readers[i].fetch_add(1, Relaxed) + 1;
		s.max_readers.fetch_max(n, Relaxed);
	}
	let a = p.a;
	pause(r);
	if a != p.b {
		s.torn.fetch_add(1, Relaxed);
	}
	if let Some(i) = ridx {
		s.readers[i].fetch_sub(1, Relaxed);
	}
	s.sections.fetch_add(1, Relaxed);
}

// payload slots: fork_data[i] -> 15+i; m[i] -> i, r[i] -> 3+i, pm -> 6, owned.0 -> 7, owned.1 -> 8, boxed[k] -> 9+k (2), retry[k] -> 11+k (2), owned_r -> 13, 14

fn worker(s: &Shared, t: usize, seed: u64, ops: u32) {
	let mut r = Rng::new(seed);
	let mut key = ThreadKey::get().expect("fresh thread owns its key");
	for _ in 0..ops {
		let op = r.below(20);
		// peek at the operands the op is going to draw (same generator state)
		let mut peek = r.clone();
		let a = peek.below(3);
		let b = peek.below(3);
		s.trace[t].store(op as u64 * 10000 + a as u64 * 100 + b as u64, Relaxed);
		s.done_ops[t].fetch_add(1, Relaxed);
		match op {
			0 => {
				let i = r.below(NM as u32) as usize;
				let mut g = s.m[i].lock(key);
				wr(s, &mut g, i, &mut r);
				key = Mutex::unlock(g);
			}
			1 => {
				let i = r.below(NR as u32) as usize;
				let mut g = s.r[i].write(key);
				wr(s, &mut g, 3 + i, &mut r);
				key = RwLock::unlock_write(g);
			}
			2 => {
				let i = r.below(NR as u32) as usize;
				let g = s.r[i].read(key);
				rd(s, &g, Some(i), &mut r);
				key = RwLock::unlock_read(g);
			}
			3 => {
				// boxed collection of references, listed in a random order
				let i = r.below(NM as u32) as usize;
				let j = r.below(NR as u32) as usize;
				if r.chance(1, 2) {
					let c = BoxedLockCollection::try_new((&s.m[i], &s.r[j])).unwrap();
					let mut g = c.lock(key);
					wr(s, &mut g.0, i, &mut r);
					wr(s, &mut g.1, 3 + j, &mut r);
					key = BoxedLockCollection::<(&Mutex<P>, &RwLock<P>)>::unlock(g);
				} else {
					let c = BoxedLockCollection::try_new((&s.r[j], &s.m[i])).unwrap();
					let mut g = c.lock(key);
					wr(s, &mut g.0, 3 + j, &mut r);
					wr(s, &mut g.1, i, &mut r);
					key = BoxedLockCollection::<(&RwLock<P>, &Mutex<P>)>::unlock(g);
				}
			}
			4 => {
				// ref collection over two rwlocks, read
				let i = r.below(NR as u32) as usize;
				let j = (i + 1 + r.below(NR as u32 - 1) as usize) % NR;
				let data = [&s.r[i], &s.r[j]];
				let c = RefLockCollection::try_new(&data).unwrap();
				let g = c.read(key);
				rd(s, &g[0], Some(i), &mut r);
				rd(s, &g[1], Some(j), &mut r);
				key = RefLockCollection::<[&RwLock<P>; 2]>::unlock_read(g);
			}
			5 => {
				// retrying collection over all mutexes in a random rotation
				let k = r.below(NM as u32) as usize;
				let idx = [k, (k + 1) % NM, (k + 2) % NM];
				let c = RetryingLockCollection::try_new([&s.m[idx[0]], &s.m[idx[1]], &s.m[idx[2]]]).unwrap();
				let mut g = c.lock(key);
				for (q, i) in idx.iter().enumerate() {
					wr(s, &mut g[q], *i, &mut r);
				}
				key = RetryingLockCollection::<[&Mutex<P>; 3]>::unlock(g);
			}
			6 => {
				s.owned.scoped_lock(&mut key, |(a, b)| {
					let mut r2 = Rng::new(seed ^ 0x66);
					wr(s, a, 7, &mut r2);
					wr(s, b, 8, &mut r2);
				});
			}
			7 => {
				let g = s.boxed.read(key);
				for p in g.iter() {
					rd(s, p, None, &mut r);
				}
				key = BoxedLockCollection::<Vec<RwLock<P>>>::unlock_read(g);
			}
			8 => {
				let mut g = s.boxed.lock(key);
				for (k, p) in g.iter_mut().enumerate() {
					wr(s, p, 9 + k, &mut r);
				}
				key = BoxedLockCollection::<Vec<RwLock<P>>>::unlock(g);
			}
			9 => {
				let mut g = s.retry.lock(key);
				for (k, p) in g.iter_mut().enumerate() {
					wr(s, p, 11 + k, &mut r);
				}
				key = RetryingLockCollection::<[Mutex<P>; 2]>::unlock(g);
			}
			10 => {
				// try paths
				let i = r.below(NM as u32) as usize;
				match s.m[i].try_lock(key) {
					Ok(mut g) => {
						wr(s, &mut g, i, &mut r);
						key = Mutex::unlock(g);
					}
					Err(k) => {
						s.try_failures.fetch_add(1, Relaxed);
						key = k;
					}
				}
			}
			11 => {
				let i = r.below(NR as u32) as usize;
				let res = s.r[i].scoped_try_write(&mut key, |p| {
					let mut r2 = Rng::new(seed ^ 0x77);
					wr(s, p, 3 + i, &mut r2);
				});
				if res.is_err() {
					s.try_failures.fetch_add(1, Relaxed);
				}
			}
			14 => {
				// collection try_read: the rollback of a refused member must release in shared mode
				let i = r.below(NR as u32) as usize;
				let j = (i + 1 + r.below(NR as u32 - 1) as usize) % NR;
				let c = BoxedLockCollection::try_new([&s.r[i], &s.r[j]]).unwrap();
				let res = c.try_read(key);
				match res {
					Ok(g) => {
						rd(s, &g[0], Some(i), &mut r);
						rd(s, &g[1], Some(j), &mut r);
						key = BoxedLockCollection::<[&RwLock<P>; 2]>::unlock_read(g);
					}
					Err(k) => {
						s.try_failures.fetch_add(1, Relaxed);
						key = k;
					}
				};
			}
			15 => {
				let i = r.below(NR as u32) as usize;
				let j = (i + 1 + r.below(NR as u32 - 1) as usize) % NR;
				let data = (&s.r[j], &s.r[i]);
				let c = RefLockCollection::try_new(&data).unwrap();
				let res = c.scoped_try_read(&mut key, |(a, b)| {
					let mut r2 = Rng::new(seed ^ 0x99);
					rd(s, a, Some(j), &mut r2);
					rd(s, b, Some(i), &mut r2);
				});
				if res.is_err() {
					s.try_failures.fetch_add(1, Relaxed);
				}
			}
			16 => {
				// owned collection: shared access and try paths
				let res = s.owned_r.scoped_try_read(&mut key, |(a, b)| {
					let mut r2 = Rng::new(seed ^ 0xAA);
					rd(s, a, None, &mut r2);
					rd(s, b, None, &mut r2);
				});
				if res.is_err() {
					s.try_failures.fetch_add(1, Relaxed);
				}
			}
			17 => {
				if r.chance(1, 2) {
					s.owned_r.scoped_lock(&mut key, |(a, b)| {
						let mut r2 = Rng::new(seed ^ 0xBB);
						wr(s, a, 13, &mut r2);
						wr(s, b, 14, &mut r2);
					});
				} else {
					// retrying collection over rwlocks, exclusive, in a random rotation
					let k = r.below(NR as u32) as usize;
					let idx = [k, (k + 1) % NR, (k + 2) % NR];
					let c = RetryingLockCollection::try_new([&s.r[idx[0]], &s.r[idx[1]], &s.r[idx[2]]]).unwrap();
					let mut g = c.lock(key);
					for (q, i) in idx.iter().enumerate() {
						wr(s, &mut g[q], 3 + *i, &mut r);
					}
					key = RetryingLockCollection::<[&RwLock<P>; 3]>::unlock(g);
				}
			}
			18 => {
				// token lock, guard API (blocking or try)
				let i = r.below(NF as u32) as usize;
				if r.chance(1, 2) {
					let g = s.forks[i].lock(key);
					// safety: the token is held
					wr(s, unsafe { &mut *s.fork_data[i].0.get() }, 15 + i, &mut r);
					key = Mutex::unlock(g);
				} else {
					match s.forks[i].try_lock(key) {
						Ok(g) => {
							wr(s, unsafe { &mut *s.fork_data[i].0.get() }, 15 + i, &mut r);
							key = Mutex::unlock(g);
						}
						Err(k) => {
							s.try_failures.fetch_add(1, Relaxed);
							key = k;
						}
					}
				}
			}
			19 => {
				// two tokens through a collection (a philosopher picking up both forks), scoped
				let i = r.below(NF as u32) as usize;
				let j = (i + 1 + r.below(NF as u32 - 1) as usize) % NF;
				let c = RetryingLockCollection::try_new([&s.forks[i], &s.forks[j]]).unwrap();
				if r.chance(1, 2) {
					c.scoped_lock(&mut key, |_| {
						let mut r2 = Rng::new(seed ^ 0xCC);
						wr(s, unsafe { &mut *s.fork_data[i].0.get() }, 15 + i, &mut r2);
						wr(s, unsafe { &mut *s.fork_data[j].0.get() }, 15 + j, &mut r2);
					});
				} else {
					let c = BoxedLockCollection::try_new([&s.forks[j], &s.forks[i]]).unwrap();
					let g = c.lock(key);
					wr(s, unsafe { &mut *s.fork_data[i].0.get() }, 15 + i, &mut r);
					wr(s, unsafe { &mut *s.fork_data[j].0.get() }, 15 + j, &mut r);
					key = BoxedLockCollection::<[&Mutex<()>; 2]>::unlock(g);
				}
			}
			12 => {
				let mut g = match s.pm.lock(key) {
					Ok(g) => g,
					Err(e) => e.into_inner(),
				};
				wr(s, &mut g, 6, &mut r);
				key = Poisonable::<Mutex<P>>::unlock(g);
			}
			_ => {
				// nested: boxed over (&owned unit, &r[j]) scoped
				let j = r.below(NR as u32) as usize;
				let c = BoxedLockCollection::try_new((&s.owned, &s.r[j])).unwrap();
				c.scoped_lock(&mut key, |((a, b), p)| {
					let mut r2 = Rng::new(seed ^ 0x88);
					wr(s, a, 7, &mut r2);
					wr(s, b, 8, &mut r2);
					wr(s, p, 3 + j, &mut r2);
				});
			}
		}
	}
}

fn episode(seed: u64, threads: u32, ops: u32) -> (Vec<String>, u64, u64, u64) {
	let s = Shared {
		m: Default::default(),
		r: Default::default(),
		pm: Poisonable::new(Mutex::new(P::default())),
		owned: OwnedLockCollection::new((Mutex::new(P::default()), RwLock::new(P::default()))),
		owned_r: OwnedLockCollection::new((RwLock::new(P::default()), RwLock::new(P::default()))),
		boxed: BoxedLockCollection::new(vec![RwLock::new(P::default()), RwLock::new(P::default())]),
		retry: RetryingLockCollection::new([Mutex::new(P::default()), Mutex::new(P::default())]),
		forks: Default::default(),
		fork_data: Default::default(),
		want: Default::default(),
		readers: Default::default(),
		max_readers: AtomicUsize::new(0),
		torn: AtomicU64::new(0),
		sections: AtomicU64::new(0),
		try_failures: AtomicU64::new(0),
		trace: Default::default(),
		done_ops: Default::default(),
		finished: AtomicUsize::new(0),
	};
	std::thread::scope(|sc| {
		for t in 0..threads {
			let s = &s;
			sc.spawn(move || {
				worker(s, t as usize, hash64(seed, t as u64), ops);
				s.finished.fetch_add(1, Relaxed);
			});
		}
		// stall watchdog: no op completed anywhere for a long time while threads are unfinished
		let s = &s;
		sc.spawn(move || {
			let mut last = 0u64;
			let mut idle = 0u32;
			loop {
				// poll quickly for completion, count idleness in 100 ms units
				let mut waited = 0;
				while waited < 100 {
					if s.finished.load(Relaxed) as u32 >= threads {
						return;
					}
					if cfg!(miri) {
						std::thread::yield_now();
					} else {
						std::thread::sleep(std::time::Duration::from_millis(1));
					}
					waited += 1;
				}
				let total: u64 = s.done_ops.iter().map(|d| d.load(Relaxed)).sum();
				if total == last {
					idle += 1;
				} else {
					idle = 0;
					last = total;
				}
				if idle >= if cfg!(miri) { u32::MAX } else { 300 } {
					let mut d = String::new();
					for t in 0..threads as usize {
						let v = s.trace[t].load(Relaxed);
						d.push_str(&format!("t{t}: op{} operands({},{}) after {} ops; ", v / 10000, (v / 100) % 100, v % 100, s.done_ops[t].load(Relaxed)));
					}
					println!("{{\"property_id\":\"racefam\",\"stalled\":true,\"detail\":\"{d}\"}}");
					eprintln!("STALL: no worker completed an operation for 30 s: {d}");
					std::process::exit(3);
				}
			}
		});
	});
	let mut errs = Vec::new();
	let torn = s.torn.load(Relaxed);
	if torn > 0 {
		errs.push(format!("torn|{torn} section(s) observed a != b (another writer was inside the section)"));
	}
	let want: Vec<u64> = s.want.iter().map(|w| w.load(Relaxed)).collect();
	let sections = s.sections.load(Relaxed);
	let tf = s.try_failures.load(Relaxed);
	let maxr = s.max_readers.load(Relaxed) as u64;
	// conservation through into_inner
	let Shared {
		m, r, pm, owned, owned_r, boxed, retry, fork_data, ..
	} = s;
	let mut got: Vec<(usize, P)> = Vec::new();
	for (i, x) in fork_data.into_iter().enumerate() {
		got.push((15 + i, x.0.into_inner()));
	}
	for (i, x) in m.into_iter().enumerate() {
		got.push((i, x.into_inner()));
	}
	for (i, x) in r.into_iter().enumerate() {
		got.push((3 + i, x.into_inner()));
	}
	got.push((
		6,
		match pm.into_inner() {
			Ok(p) => p,
			Err(e) => e.into_inner(),
		},
	));
	let (a, b) = owned.into_inner();
	got.push((7, a));
	got.push((8, b));
	for (k, p) in boxed.into_inner().into_vec().into_iter().enumerate() {
		got.push((9 + k, p));
	}
	for (k, p) in retry.into_inner().into_iter().enumerate() {
		got.push((11 + k, p));
	}
	let (a, b) = owned_r.into_inner();
	got.push((13, a));
	got.push((14, b));
	for (slot, p) in got {
		if p.a != want[slot] || p.b != want[slot] {
			errs.push(format!(
				"conservation|slot {slot}: payload a={} b={} but {} exclusive sections completed (lost or torn update)",
				p.a, p.b, want[slot]
			));
		}
	}
	(errs, sections, tf, maxr)
}

pub fn run(cfg: &RunCfg) -> Report {
	let (episodes, threads, ops) = if cfg.miri {
		(1u64, 3u32, 5u32)
	} else if cfg.thorough {
		(3000, 8, 600)
	} else {
		(600, 8, 400)
	};
	let mut rep = Report::default();
	for e in 0..episodes {
		if let Some(o) = cfg.only {
			if o != e {
				continue;
			}
		}
		let seed = hash64(cfg.seed ^ 0x7ACE, e);
		let (errs, sections, tf, maxr) = episode(seed, threads, ops);
		rep.evaluations += 1;
		rep.count("sections", sections);
		rep.count("try_failures", tf);
		rep.count("max_concurrent_readers_seen", 0);
		let c = rep.counters.get_mut("max_concurrent_readers_seen").unwrap();
		*c = (*c).max(maxr);
		if tf > 0 || maxr > 1 || threads > 1 {
			rep.nontrivial.insert(seed);
		}
		if rep.samples.len() < 2 {
			rep.samples.push(J::obj(vec![
				("episode_seed", J::u(seed)),
				("threads", J::u(threads as u64)),
				("ops_per_thread", J::u(ops as u64)),
				("sections", J::u(sections)),
				("try_failures", J::u(tf)),
				("max_concurrent_readers", J::u(maxr)),
			]));
		}
		for er in errs {
			let rule = er.split('|').next().unwrap_or("race").to_string();
			rep.violations.push(VRec {
				prop: "C02".into(),
				rule: rule.clone(),
				detail: er,
				signature: format!("C02:free_running:{rule}"),
				case: format!("racefam episode seed {seed} threads {threads} ops {ops}"),
				index: e,
				log: vec![],
			});
		}
	}
	rep.rule = "free-running threads on the production parking_lot-backed locks: single Mutex/RwLock (guard, try, scoped), boxed/ref/retrying collections of references listed in opposite orders, owned/boxed/retrying collections owning their locks, nested, Poisonable, and zero-sized token locks (Mutex<()>) guarding data that lives outside them - directly and through retrying / boxed collections of two tokens; plain non-atomic payloads bumped in two steps with yields/spins inside the section; oracles: a == b on entry of every section, conservation of increments through into_inner; under Miri/TSan any data-race or aliasing report is a violation; an episode is non-trivial when >= 2 threads ran (contention statistics in counters)".into();
	rep
}

/// deliberately broken mini-programs a sanitizer lane must flag (canaries)
pub fn canary(kind: &str) {
	match kind {
		"race" => {
			struct Racy(std::cell::UnsafeCell<u64>);
			unsafe impl Sync for Racy {}
			let r = Racy(std::cell::UnsafeCell::new(0));
			let r = &r;
			let go = std::sync::atomic::AtomicBool::new(false);
			std::thread::scope(|s| {
				for _ in 0..2 {
					s.spawn(|| {
						while !go.load(Relaxed) {
							std::hint::spin_loop();
						}
						let rr: &Racy = r;
						for _ in 0..20000 {
							unsafe { *rr.0.get() += 1 };
						}
					});
				}
				go.store(true, Relaxed);
			});
			println!("canary race done: {}", unsafe { *r.0.get() });
		}
		"leak" => {
			let b = Box::new([7u8; 64]);
			let p = Box::into_raw(b);
			// lose the only pointer
			let q = p as usize;
			std::hint::black_box(q);
			println!("canary leak done");
		}
		"uaf" => {
			let b = Box::new(5u64);
			let p = Box::into_raw(b);
			unsafe {
				drop(Box::from_raw(p));
				let v = std::ptr::read_volatile(p);
				println!("canary uaf read {v}");
			}
		}
		_ => println!("unknown canary"),
	}
}
