//! C06: at most one live ThreadKey per thread, over every history.
//!
//! Two threads run independent random histories in lock-step (a barrier between steps, so
//! their key lifetimes overlap in time); each has its own KeyModel.  After every step the
//! thread probes `ThreadKey::get()` (dropping a returned key at once, which restores the flag
//! it found) and compares with the model.
use std::sync::{Arc, Barrier};

use happylock::ThreadKey;

use crate::exec::*;
use crate::json::J;
use crate::lk::*;
use crate::prog::*;
use crate::props::tryfam::{place, Hold};
use crate::report::*;
use crate::rng::{hash64, hash_str, Rng};
use crate::solo::*;
use crate::world::*;

#[derive(Clone, Debug)]
enum KOp {
	Get,
	DropKey,
	ForgetKey,
	/// guard API on an arena leaf/unit; the guard is kept across steps
	Acquire { target: Target, mode: Mode, try_api: bool, force_fail: bool },
	Unlock,
	DropGuard,
	ForgetGuard,
	/// acquire + probe inside + release, any target / API
	Compound { acq: Acq, force_fail: bool },
}

fn kop_desc(o: &KOp) -> String {
	match o {
		KOp::Get => "get".into(),
		KOp::DropKey => "drop(key)".into(),
		KOp::ForgetKey => "forget(key)".into(),
		KOp::Acquire { target, mode, try_api, force_fail } => format!(
			"{}{}({}:{})",
			if *try_api { "try_lock" } else { "lock" },
			if *force_fail { "!held" } else { "" },
			target_desc(target),
			mode.ch()
		),
		KOp::Unlock => "unlock(guard)".into(),
		KOp::DropGuard => "drop(guard)".into(),
		KOp::ForgetGuard => "forget(guard)".into(),
		KOp::Compound { acq, force_fail } => format!("[{}{}]", acq_desc(acq), if *force_fail { " !held" } else { "" }),
	}
}

fn gen_history(r: &mut Rng, a: &crate::arena::ArenaSpec, len: u32) -> Vec<KOp> {
	let g = GenCfg {
		allow_panic: true,
		..GenCfg::default()
	};
	let mut v = Vec::new();
	for _ in 0..len {
		let o = match r.below(12) {
			0 | 1 => KOp::Get,
			2 => KOp::DropKey,
			3 => {
				if r.chance(1, 6) {
					KOp::ForgetKey
				} else {
					KOp::Get
				}
			}
			4 | 5 => {
				let target = if !a.units.is_empty() && r.chance(1, 3) {
					Target::Unit(r.below(a.units.len() as u32) as usize)
				} else {
					Target::Leaf(r.below(a.leaves.len() as u32) as usize)
				};
				let mode = if target_readable(a, &target) && r.chance(1, 2) { Mode::Shared } else { Mode::Excl };
				let try_api = r.chance(1, 2);
				KOp::Acquire { target, mode, try_api, force_fail: try_api && r.chance(1, 2) }
			}
			6 => KOp::Unlock,
			7 => KOp::DropGuard,
			8 => {
				if r.chance(1, 5) {
					KOp::ForgetGuard
				} else {
					KOp::Unlock
				}
			}
			_ => {
				let acq = gen_acq(r, a, &g);
				let force_fail = matches!(acq.api, Api::TryLoop | Api::ScopedTry) && r.chance(1, 2);
				KOp::Compound { acq, force_fail }
			}
		};
		v.push(o);
	}
	v
}

struct KState<'g> {
	key: Option<ThreadKey>,
	guard: Option<Box<dyn Held + 'g>>,
	/// model: a key of this thread is alive somewhere
	alive: bool,
}

/// ask for a key the ordinary way, and again from a destructor that runs while the thread unwinds
/// from an unrelated panic (clean-up code asking for the key): the answers must be the same
fn ask(ctx: usize) -> (bool, &'static str) {
	let got = if ctx == 0 { ThreadKey::get() } else { in_unwind(ThreadKey::get) };
	let some = got.is_some();
	drop(got);
	(some, if ctx == 0 { "" } else { " (asked from a destructor during an unrelated unwind)" })
}

fn probe(tc: &Tc<'_>, st: &KState<'_>, after: &str) {
	for ctx in 0..2 {
		let (some, how) = ask(ctx);
		if some == st.alive {
			tc.v(
				"C06",
				if some { "second_key_issued" } else { "key_not_reissued" },
				format!(
					"after {after}: ThreadKey::get(){how} returned {} but the model says the thread's key is {}",
					if some { "Some" } else { "None" },
					if st.alive { "alive" } else { "not alive" }
				),
			);
		}
	}
}

fn probe_inside(w: &World, what: &str) {
	for ctx in 0..2 {
		let (some, how) = ask(ctx);
		if some {
			w.violate(
				"C06",
				"second_key_issued",
				format!("inside {what}: ThreadKey::get(){how} returned Some while the key is stored in the guard / moved or lent to the running scoped call"),
			);
		}
	}
}

/// run one history on the current thread; `sync` is called between steps
fn run_history<'a>(tc: &mut Tc<'a>, hist: &[KOp], sync: &dyn Fn()) -> u32 {
	let w = tc.w.clone();
	let arena = tc.arena;
	let all_ids = leaf_ids_flat(arena);
	let mut st: KState<'a> = KState {
		key: tc.key.take(),
		guard: None,
		alive: true,
	};
	let mut interesting = 0;
	probe(tc, &st, "start (key owned)");
	for op in hist {
		sync();
		let d = kop_desc(op);
		match op {
			KOp::Get => {
				let k = ThreadKey::get();
				if k.is_some() == st.alive {
					tc.v(
						"C06",
						if k.is_some() { "second_key_issued" } else { "key_not_reissued" },
						format!("get: returned {} while model alive={}", k.is_some(), st.alive),
					);
				}
				if let Some(k) = k {
					if st.key.is_none() && !st.alive {
						st.key = Some(k);
						st.alive = true;
					} else {
						// a second key (violation already recorded): drop it
						drop(k);
					}
				}
			}
			KOp::DropKey => {
				if let Some(k) = st.key.take() {
					drop(k);
					st.alive = false;
					interesting += 1;
				}
			}
			KOp::ForgetKey => {
				if let Some(k) = st.key.take() {
					std::mem::forget(k);
					// alive forever
					interesting += 1;
				}
			}
			KOp::Acquire { target, mode, try_api, force_fail } => {
				if st.guard.is_none() {
					if let Some(k) = st.key.take() {
						let ids = expected_ids(arena, target);
						if *force_fail {
							let asg: Vec<Hold> = all_ids
								.iter()
								.map(|id| if ids.first() == Some(id) { Hold::Write } else { Hold::Free })
								.collect();
							place(&w, &all_ids, &asg, false);
						} else {
							w.phantom_release_all();
						}
						let mode = *mode;
						// arena-level targets: the guard can be kept across steps
						let lk: &'a dyn Lk = match target {
							Target::Leaf(i) => match &arena.leaves[*i] {
								crate::arena::Leaf::M(l) => l,
								crate::arena::Leaf::R(l) => l,
								crate::arena::Leaf::PM(l) => l,
								crate::arena::Leaf::PR(l) => l,
							},
							Target::Unit(u) => match &arena.units[*u] {
								crate::arena::Unit::OwnedM(c) => c,
								crate::arena::Unit::OwnedR(c) => c,
								crate::arena::Unit::BoxedM(c) => c,
								crate::arena::Unit::BoxedR(c) => c,
								crate::arena::Unit::RetryM(c) => c,
								crate::arena::Unit::RetryR(c) => c,
							},
							_ => unreachable!(),
						};
						w.begin_call(0, if *try_api { Class::TryAcquire } else { Class::Acquire }, "c06.acquire", false);
						if *try_api {
							match lk.try_lock(k, mode) {
								TryOut::Ok(g) => st.guard = Some(g),
								TryOut::WouldBlock(k) => st.key = Some(k),
							}
						} else {
							st.guard = Some(lk.lock(k, mode));
						}
						w.end_call(0);
						w.phantom_release_all();
						interesting += 1;
					}
				}
			}
			KOp::Unlock => {
				if let Some(g) = st.guard.take() {
					w.begin_call(0, Class::Release, "c06.unlock", false);
					st.key = Some(g.unlock());
					w.end_call(0);
					interesting += 1;
				}
			}
			KOp::DropGuard => {
				if let Some(g) = st.guard.take() {
					w.begin_call(0, Class::Release, "c06.drop", false);
					drop(g);
					w.end_call(0);
					st.alive = false;
					interesting += 1;
				}
			}
			KOp::ForgetGuard => {
				if let Some(g) = st.guard.take() {
					g.forget();
					// the key inside is leaked: alive forever
					interesting += 1;
				}
			}
			KOp::Compound { acq, force_fail } => {
				if st.guard.is_some() {
					continue; // the thread's key is inside the live guard
				}
				let Some(key) = st.key.take() else { continue };
				let ids = expected_ids(arena, &acq.target);
				if *force_fail && !ids.is_empty() {
					let victim = ids[ids.len() / 2];
					let asg: Vec<Hold> = all_ids
						.iter()
						.map(|id| if *id == victim { Hold::Write } else { Hold::Free })
						.collect();
					place(&w, &all_ids, &asg, false);
				} else {
					w.phantom_release_all();
				}
				interesting += 1;
				let acqd = acq_desc(acq);
				// returns (key owned by the user afterwards, alive)
				let r: Option<(Option<ThreadKey>, bool)> = {
					let tcr: &World = &w;
					let mut key_slot = Some(key);
					let res = tc.with_lk(&acq.target, |_tc2, lk, _exp| {
						let key = key_slot.take().unwrap();
						match acq.api {
							Api::Guard | Api::GuardUnlock => {
								w.begin_call(0, Class::Acquire, "c06.lock", false);
								let g = lk.lock(key, acq.mode);
								w.end_call(0);
								probe_inside(tcr, &format!("guard of {acqd}"));
								w.begin_call(0, Class::Release, "c06.release", false);
								let out = if acq.api == Api::GuardUnlock {
									(Some(g.unlock()), true)
								} else {
									drop(g);
									(None, false)
								};
								w.end_call(0);
								out
							}
							Api::TryLoop => {
								w.begin_call(0, Class::TryAcquire, "c06.try", false);
								let r = lk.try_lock(key, acq.mode);
								w.end_call(0);
								match r {
									TryOut::Ok(g) => {
										probe_inside(tcr, &format!("guard of {acqd}"));
										w.begin_call(0, Class::Release, "c06.release", false);
										drop(g);
										w.end_call(0);
										(None, false)
									}
									TryOut::WouldBlock(k) => (Some(k), true),
								}
							}
							Api::Scoped | Api::ScopedTry => {
								let body = |_f: Flat<'_>, _p: Option<bool>| {
									probe_inside(tcr, &format!("closure of {acqd}"));
									if acq.panic {
										std::panic::resume_unwind(Box::new(InjectedPanic(0)));
									}
								};
								let is_try = acq.api == Api::ScopedTry;
								w.begin_call(0, if is_try { Class::TryAcquire } else { Class::Acquire }, "c06.scoped", false);
								let out = if acq.lent {
									let mut k = key;
									let r = guarded(|| {
										if is_try {
											let _ = lk.scoped_try(KeyArg::Lent(&mut k), acq.mode, &body);
										} else {
											lk.scoped(KeyArg::Lent(&mut k), acq.mode, &body);
										}
									});
									match r {
										Ok(()) | Err(Unwound::InjectedPanic) => (Some(k), true),
										Err(Unwound::Abort) => bail(),
										Err(_) => (Some(k), true),
									}
								} else {
									let mut back: Option<ThreadKey> = None;
									let r = guarded(|| {
										if is_try {
											if let Err(KeyArg::Owned(k)) = lk.scoped_try(KeyArg::Owned(key), acq.mode, &body) {
												back = Some(k);
											}
										} else {
											lk.scoped(KeyArg::Owned(key), acq.mode, &body);
										}
									});
									match r {
										Err(Unwound::Abort) => bail(),
										_ => {}
									}
									let alive = back.is_some();
									(back, alive)
								};
								w.end_call(0);
								out
							}
						}
					});
					res
				};
				w.phantom_release_all();
				match r {
					Some((k, alive)) => {
						st.key = k;
						st.alive = alive;
					}
					None => {
						// try_new rejected (recorded elsewhere); the key was not consumed
						st.alive = ThreadKey::get().map(drop).is_none();
					}
				}
				// a panicking/forced hold may leave the caller's holds: clean the table softly
			}
		}
		probe(tc, &st, &d);
	}
	// tidy up so that the worker thread-local is clean when possible
	if let Some(g) = st.guard.take() {
		drop(g);
	}
	drop(st.key.take());
	interesting
}

pub fn run(cfg: &RunCfg) -> Report {
	let items = ((if cfg.thorough { 400_000.0 } else { 12_000.0 }) * cfg.scale) as u64;
	let (mut rep, _) = par_run(cfg, items, |i, rep| {
		let mut r = Rng::new(hash64(cfg.seed ^ 0xC06, i));
		let g = GenCfg::default();
		let specs = [gen_arena(&mut r, &g), gen_arena(&mut r, &g)];
		let len = r.range(3, 16);
		let hists = [gen_history(&mut r, &specs[0], len), gen_history(&mut r, &specs[1], len)];
		let barrier = Arc::new(Barrier::new(2));
		let keep_log = cfg.only.is_some();
		let outs: Vec<(Option<u32>, SoloOut)> = std::thread::scope(|s| {
			let hs: Vec<_> = (0..2)
				.map(|t| {
					let spec = &specs[t];
					let hist = &hists[t];
					let barrier = barrier.clone();
					std::thread::Builder::new()
						.stack_size(512 * 1024)
						.spawn_scoped(s, move || {
							let steps = std::sync::atomic::AtomicU32::new(0);
							let res = solo(spec, Policy::ReaderPref, keep_log, |tc| {
								let sync = || {
									steps.fetch_add(1, std::sync::atomic::Ordering::Relaxed);
									barrier.wait();
								};
								run_history(tc, hist, &sync)
							});
							// keep the partner from waiting forever if this history stopped early
							for _ in steps.load(std::sync::atomic::Ordering::Relaxed)..len {
								barrier.wait();
							}
							res
						})
						.expect("spawn")
				})
				.collect();
			hs.into_iter().map(|h| h.join().expect("history thread")).collect()
		});
		for (t, (res, out)) in outs.iter().enumerate() {
			rep.evaluations += 1;
			let case = format!(
				"thread {t}: {} | {}",
				crate::prog::arena_desc(&specs[t]),
				hists[t].iter().map(kop_desc).collect::<Vec<_>>().join(" ; ")
			);
			if let Some(n) = res {
				if *n >= 2 {
					rep.nontrivial.insert(hash_str(&case));
				}
				rep.count("key_affecting_steps", *n as u64);
				if rep.samples.len() < 2 && *n >= 5 {
					rep.samples.push(J::obj(vec![("index", J::u(i)), ("history", J::s(&case))]));
				}
			}
			if let Some(a) = &out.aborted {
				match a {
					Abort::Harness(m) => rep.inconclusive.push(format!("item {i}: {m}")),
					_ => rep.violations.push(VRec {
						prop: "C06".into(),
						rule: "history_blocked".into(),
						detail: format!("{:?} {}", a, out.deadlock_witness),
						signature: "C06:history_blocked".into(),
						case: case.clone(),
						index: i,
						log: out.log.clone(),
					}),
				}
			}
			if let Some(m) = &out.unwound {
				rep.violations.push(VRec {
					prop: "C06".into(),
					rule: "unexpected_panic".into(),
					detail: m.clone(),
					signature: "C06:unexpected_panic".into(),
					case: case.clone(),
					index: i,
					log: out.log.clone(),
				});
			}
			for v in &out.violations {
				rep.violations.push(VRec {
					prop: v.prop.into(),
					rule: v.rule.into(),
					detail: v.detail.clone(),
					signature: sig_of(v),
					case: case.clone(),
					index: i,
					log: vec![],
				});
			}
		}
	});
	rep.rule = "pairs of random histories (length 3..16) run in lock-step on two threads over the key-affecting vocabulary {get, drop(key), forget(key), lock/try_lock kept across steps then unlock / drop(guard) / forget(guard), and compound acquire-probe-release through every target kind and API flavour: guard, guard+unlock, try (incl. forced failure by a phantom holder), scoped / scoped_try with lent and with owned key, panicking closures, poisonable results}; after every step and inside every guard / closure the thread probes ThreadKey::get() against its KeyModel - once the ordinary way and once from a destructor that runs during an unrelated unwind; evaluations = histories; non-trivial = history with >= 2 key-affecting steps; distinct = distinct history text".into();
	rep
}
