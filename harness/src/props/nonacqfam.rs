//! C17: non-acquiring operations never wait and never disturb holds.
use happylock::collection::{
	BoxedLockCollection, OwnedLockCollection, RefLockCollection, RetryingLockCollection,
};
use happylock::poisonable::Poisonable;
use happylock::ThreadKey;

use crate::arena::*;
use crate::exec::*;
use crate::json::J;
use crate::lk::*;
use crate::prog::*;
use crate::props::tryfam::{asg_str, assignments, place, Hold};
use crate::report::*;
use crate::rng::{hash64, hash_str};
use crate::solo::*;
use crate::world::*;

/// a formatter sink that accepts `left` more bytes and then fails
struct Cut {
	left: usize,
}
impl std::fmt::Write for Cut {
	fn write_str(&mut self, s: &str) -> std::fmt::Result {
		if s.len() > self.left {
			self.left = 0;
			Err(std::fmt::Error)
		} else {
			self.left -= s.len();
			Ok(())
		}
	}
}

/// non-acquiring operations that need ownership / &mut: constructors, get_mut, child_mut,
/// into_inner, into_child, from, from_iter, default, extend — performed on freshly built
/// structures whose locks may be "held" (phantoms, or a guard leaked with mem::forget).
fn owned_ops(tc: &mut Tc<'_>, key: &mut Option<ThreadKey>, n: usize, variant: u32) -> u32 {
	let w = tc.w.clone();
	let mut count = 0;
	macro_rules! op {
		($label:expr, $e:expr) => {{
			count += 1;
			tc.nonacq($label, || $e)
		}};
	}
	// build n registered locks; phantom-hold some, leak a guard on one
	let mk_m = |w: &std::sync::Arc<World>| -> (M, LockId) {
		let id = w.add_lock(false);
		let m = M::new(Cell3::new(id));
		(m, id)
	};
	let mk_r = |w: &std::sync::Arc<World>| -> (R, LockId) {
		let id = w.add_lock(true);
		let r = R::new(Cell3::new(id));
		(r, id)
	};
	// --- mutexes
	let mut ms = Vec::new();
	let mut ids = Vec::new();
	for _ in 0..n {
		let (m, id) = op!("Mutex::new", mk_m(&w));
		// registration try-op (harness internal)
		w.begin_setup();
		set_reg_tag(Some(id));
		let mut k = key.take().unwrap();
		let _ = m.scoped_try_lock(&mut k, |_| ());
		*key = Some(k);
		set_reg_tag(None);
		w.end_setup();
		ms.push(m);
		ids.push(id);
	}
	for (k, id) in ids.iter().enumerate() {
		if (variant >> k) & 1 == 1 {
			w.phantom_hold(*id, Mode::Excl, k as u32, false);
		}
	}
	// a guard leaked with mem::forget keeps the first free lock held by this very thread
	let mut leaked = false;
	if variant & 0x100 != 0 {
		if let Some(pos) = (0..n).find(|k| (variant >> k) & 1 == 0) {
			let k = key.take().unwrap();
			w.begin_call(0, Class::Acquire, "leak", false);
			let g = ms[pos].lock(k);
			w.end_call(0);
			std::mem::forget(g);
			leaked = true;
		}
	}
	// The library's view of the locks must still agree with the audit table after operations that
	// get `&mut` access: a try on the whole collection succeeds iff no member is (phantom-)held.
	// (Not possible when the key went into the leaked guard.)
	let any_held = (0..n).any(|k| (variant >> k) & 1 == 1) || leaked;
	macro_rules! view_probe {
		($c:expr, $what:expr) => {{
			if let Some(k) = key.take() {
				w.begin_call(0, Class::Harness, "view_probe", false);
				match $c.try_lock(k) {
					Ok(g) => {
						if any_held && n > 0 {
							tc.v("C17", "hold_state_changed", format!("{}: try_lock succeeded although a member is held - the lock no longer reflects the hold it had before the call", $what));
						}
						drop(g);
						*key = ThreadKey::get();
					}
					Err(k) => {
						if !any_held {
							tc.v("C17", "hold_state_changed", format!("{}: try_lock refused although nothing is held", $what));
						}
						*key = Some(k);
					}
				}
				w.end_call(0);
			}
		}};
	}
	match variant % 5 {
		0 => {
			let mut c = op!("Owned::new", OwnedLockCollection::new(ms));
			let _ = op!("Owned::debug", format!("{:?}", c));
			{
				let v = op!("Owned::get_mut", c.get_mut());
				assert_eq!(v.len(), n);
			}
			let _ = op!("Owned::child_mut", c.child_mut().len());
			view_probe!(c, "Owned after get_mut / child_mut");
			op!("Owned::extend", c.extend(Vec::<M>::new()));
			let inner = op!("Owned::into_inner", c.into_inner());
			assert_eq!(inner.len(), n);
		}
		1 => {
			let c = op!("Boxed::new", BoxedLockCollection::new(ms));
			let _ = op!("Boxed::debug", format!("{:?}", c));
			let _ = op!("Boxed::child", c.child().len());
			let r = op!("Boxed::new_ref", BoxedLockCollection::new_ref(c.child()));
			let _ = op!("Boxed(ref)::debug", format!("{:?}", r));
			drop(r);
			let rr = op!("Ref::new", RefLockCollection::new(c.child()));
			let _ = op!("Ref::debug", format!("{:?}", rr));
			let _ = op!("Ref::child", rr.child().len());
			drop(rr);
			let child = op!("Boxed::into_child", c.into_child());
			let c2: BoxedLockCollection<Vec<M>> = op!("Boxed::from", BoxedLockCollection::from(child));
			let inner = op!("Boxed::into_inner", c2.into_inner());
			assert_eq!(inner.len(), n);
		}
		2 => {
			let mut c = op!("Retry::new", RetryingLockCollection::new(ms));
			let _ = op!("Retry::debug", format!("{:?}", c));
			let r = op!("Retry::new_ref", RetryingLockCollection::new_ref(c.child()));
			let _ = op!("Retry(ref)::debug", format!("{:?}", r));
			{
				let v = op!("Retry::get_mut", c.get_mut());
				assert_eq!(v.len(), n);
			}
			let _ = op!("Retry::child_mut", c.child_mut().len());
			let _ = op!("Retry::iter_mut", c.iter_mut().count());
			view_probe!(c, "Retrying after get_mut / child_mut / iter_mut");
			op!("Retry::extend", c.extend(Vec::<M>::new()));
			let child = op!("Retry::into_child", c.into_child());
			let c2: RetryingLockCollection<Vec<M>> = op!("Retry::from_iter", child.into_iter().collect());
			let inner = op!("Retry::into_inner", c2.into_inner());
			assert_eq!(inner.len(), n);
		}
		3 => {
			let mut ps: Vec<Poisonable<M>> = Vec::new();
			for m in ms {
				ps.push(op!("Poisonable::new", Poisonable::new(m)));
			}
			// a poisoned wrapper stays poisoned whatever `&mut` views are taken of it
			if let Some(pos) = (0..n).find(|k| (variant >> k) & 1 == 0 && !(leaked && Some(*k) == (0..n).find(|q| (variant >> q) & 1 == 0))) {
				if let Some(mut k) = key.take() {
					w.begin_call(0, Class::Harness, "poison_it", false);
					let r = guarded(|| {
						ps[pos].scoped_lock(&mut k, |_| std::panic::resume_unwind(Box::new(InjectedPanic(0))));
					});
					w.end_call(0);
					let _ = r;
					*key = Some(k);
					let before = ps[pos].is_poisoned();
					let first = op!("Poisonable::get_mut (poisoned)", ps[pos].get_mut().is_err());
					let second = op!("Poisonable::child_mut (poisoned)", ps[pos].child_mut().is_err());
					let third = op!("Poisonable::get_mut (poisoned, again)", ps[pos].get_mut().is_err());
					if before && !(first && second && third && ps[pos].is_poisoned()) {
						tc.v(
							"C10",
							"poison_lost_without_clear",
							format!("route=get_mut|a poisoned Poisonable answered get_mut/child_mut/get_mut with Err={first}/{second}/{third} and is_poisoned()={} afterwards although clear_poison was never called", ps[pos].is_poisoned()),
						);
					}
					op!("Poisonable::clear_poison", ps[pos].clear_poison());
				}
			}
			for p in ps.iter_mut() {
				let _ = op!("Poisonable::debug", format!("{:?}", p));
				let _ = op!("Poisonable::is_poisoned", p.is_poisoned());
				op!("Poisonable::clear_poison", p.clear_poison());
				let _ = op!("Poisonable::get_mut", p.get_mut().is_ok());
				let _ = op!("Poisonable::child_mut", p.child_mut().is_ok());
			}
			let mut it = ps.into_iter();
			if let Some(p) = it.next() {
				let _ = op!("Poisonable::into_inner", p.into_inner().is_ok());
			}
			for p in it {
				let m = op!("Poisonable::into_child", p.into_child());
				let m = match m {
					Ok(m) => m,
					Err(e) => e.into_inner(),
				};
				let _ = op!("Mutex::into_inner", m.into_inner());
			}
		}
		_ => {
			for m in ms.iter_mut() {
				let _ = op!("Mutex::debug", format!("{:?}", m));
				let _ = op!("Mutex::get_mut", m.get_mut().lock_id);
				let _ = op!("Mutex::as_mut", AsMut::<Cell3>::as_mut(m).lock_id);
			}
			let d: OwnedLockCollection<Vec<M>> = op!("Owned::default", Default::default());
			drop(d);
			let d: BoxedLockCollection<Vec<M>> = op!("Boxed::default", Default::default());
			let _ = op!("Boxed::debug(empty)", format!("{:?}", d));
			drop(d);
			let d: RetryingLockCollection<Vec<M>> = op!("Retry::default", Default::default());
			drop(d);
			for m in ms {
				let _ = op!("Mutex::into_inner", m.into_inner());
			}
		}
	}
	// --- rwlocks (reads allowed)
	let mut rs = Vec::new();
	let mut rids = Vec::new();
	for _ in 0..n {
		let (r, id) = op!("RwLock::new", mk_r(&w));
		w.begin_setup();
		set_reg_tag(Some(id));
		if let Some(mut k) = key.take() {
			let _ = r.scoped_try_read(&mut k, |_| ());
			*key = Some(k);
			set_reg_tag(None);
			w.end_setup();
		} else {
			// the key went into the leaked guard: register through Debug's key-less try-read
			let _ = format!("{:?}", r);
			set_reg_tag(None);
			w.end_setup();
		}
		rs.push(r);
		rids.push(id);
	}
	for (k, id) in rids.iter().enumerate() {
		match (variant >> (2 * k)) & 3 {
			1 => w.phantom_hold(*id, Mode::Shared, 50 + k as u32, false),
			2 => w.phantom_hold(*id, Mode::Excl, 50 + k as u32, false),
			_ => {}
		}
	}
	for r in rs.iter_mut() {
		let _ = op!("RwLock::debug", format!("{:?}", r));
		let _ = op!("RwLock::get_mut", r.get_mut().lock_id);
	}
	let mut c = op!("Owned::new(rw)", OwnedLockCollection::new(rs));
	let _ = op!("Owned(rw)::debug", format!("{:?}", c));
	let _ = op!("Owned(rw)::get_mut", c.get_mut().len());
	let child = op!("Owned(rw)::into_child", c.into_child());
	let c = op!("Boxed::new(rw)", BoxedLockCollection::new(child));
	let _ = op!("Boxed(rw)::debug", format!("{:?}", c));
	let _ = op!("Boxed(rw)::iter", c.iter().count());
	let inner = op!("Boxed(rw)::into_inner", c.into_inner());
	assert_eq!(inner.len(), n);
	w.phantom_release_all();
	if leaked {
		// the leaked hold stays in the owner table for the rest of the episode; forget it
		let mut g = w.g();
		for l in g.locks.iter_mut() {
			if l.excl == Some(0) {
				l.excl = None;
			}
		}
	}
	count
}

pub fn run(cfg: &RunCfg) -> Report {
	let max_n = if cfg.thorough { 4 } else { 3 };
	let mut shapes: Vec<(ArenaSpec, Target, usize)> = Vec::new();
	for fam in Fam::ALL {
		for n in 0..=max_n {
			for (a, t) in enum_shapes(n, fam, cfg.thorough && n <= 3) {
				shapes.push((a, t, n));
			}
		}
	}
	let n_shapes = shapes.len() as u64;
	let owned_variants: u64 = if cfg.thorough { 2048 } else { 512 };
	let (mut rep, _) = par_run(cfg, n_shapes + owned_variants, |i, rep| {
		if i >= n_shapes {
			// ownership-requiring operations
			let variant = (i - n_shapes) as u32;
			let n = (variant as usize / 7) % 5;
			let spec = ArenaSpec { leaves: vec![], units: vec![] };
			let run = move || {
				solo(&spec, Policy::WriterPref, false, |tc| {
					let mut key = tc.key.take();
					let c = owned_ops(tc, &mut key, n, variant);
					tc.key = key;
					c
				})
			};
			// a leaked guard takes the thread's key with it: use a throw-away thread
			let (res, out) = if variant & 0x100 != 0 { on_fresh_thread(run) } else { run() };
			if let Some(c) = res {
				rep.evaluations += c as u64;
				rep.nontrivial.insert(hash64(0xC17, variant as u64));
				rep.count("owned_ops", c as u64);
			}
			if let Some(a) = &out.aborted {
				rep.violations.push(VRec {
					prop: "C17".into(),
					rule: "nonacquiring_call_blocked".into(),
					detail: format!("{:?} {}", a, out.deadlock_witness),
					signature: "C17:nonacquiring_call_blocked".into(),
					case: format!("owned ops variant {variant} n={n}"),
					index: i,
					log: vec![],
				});
			}
			if let Some(m) = &out.unwound {
				rep.violations.push(VRec {
					prop: "C17".into(),
					rule: "unexpected_panic".into(),
					detail: m.clone(),
					signature: "C17:unexpected_panic".into(),
					case: format!("owned ops variant {variant} n={n}"),
					index: i,
					log: vec![],
				});
			}
			for v in &out.violations {
				rep.violations.push(VRec {
					prop: v.prop.into(),
					rule: v.rule.into(),
					detail: v.detail.clone(),
					signature: sig_of(v),
					case: format!("owned ops variant {variant} n={n}"),
					index: i,
					log: vec![],
				});
			}
			return;
		}
		let (arena_spec, target, _n) = &shapes[i as usize];
		let readable = target_readable(arena_spec, target);
		let case0 = format!("{} {}", arena_desc(arena_spec), target_desc(target));
		for policy in [Policy::ReaderPref, Policy::WriterPref] {
			let (res, out) = solo(arena_spec, policy, cfg.only.is_some(), |tc| {
				let w = tc.w.clone();
				PAYLOAD_DEBUG.with(|m| m.set(0));
				let ids = expected_ids(tc.arena, target);
				let rw: Vec<bool> = ids.iter().map(|id| is_rw(&w, *id)).collect();
				let mut n_ops = 0u64;
				let mut cases = Vec::new();
				// Poisonable leaves are exercised in both states: the second pass poisons every wrapper
				// (a panic inside its own guard) before each group of operations
				let pois_leaves: Vec<usize> = (0..tc.arena.leaves.len())
					.filter(|li| matches!(tc.arena.leaves[*li], Leaf::PM(_) | Leaf::PR(_)))
					.collect();
				let poison_all = |tc: &mut Tc<'_>| {
					for li in &pois_leaves {
						let acq = Acq {
							target: Target::Leaf(*li),
							mode: Mode::Excl,
							api: Api::Guard,
							lent: false,
							panic: true,
							unwind: false,
						};
						let _ = guarded(|| tc.run_acq(&acq));
						tc.key = None;
						let p = match &tc.arena.leaves[*li] {
							Leaf::PM(p) => p.is_poisoned(),
							Leaf::PR(p) => p.is_poisoned(),
							_ => true,
						};
						if !p {
							tc.v("C10", "not_poisoned_after_panic", format!("route=leaf.lock|L{li} not poisoned after a panic under its own guard"));
						}
					}
				};
				// (A) held by another thread (phantoms), every assignment
				for poisoned in [false, true] {
					if poisoned && pois_leaves.is_empty() {
						continue;
					}
					for asg in assignments(&rw) {
						if poisoned {
							w.phantom_release_all();
							poison_all(tc);
						}
						place(&w, &ids, &asg, false);
						tc.with_lk(target, |tc, lk, _| {
							let _ = tc.nonacq(if poisoned { "debug(target), poisoned" } else { "debug(target)" }, || lk.debug());
							if !poisoned {
								// (clear_poison is one of the accessors: in the poisoned pass they run last)
								let _ = tc.nonacq("accessors(target)", || lk.accessors());
								// Formatting that ends early: a sink that fails after `cut` bytes, a payload
								// whose own Debug returns Err, a payload whose Debug panics.  The call ends
								// with an Err or an unwind and must still leave every lock as it found it.
								for cut in [0usize, 1, 9, 17, 26, 36, 47, 59, 72, 90, 130, 200] {
									let _ = tc.nonacq("debug(target) into a sink that fails part way", || lk.debug_to(&mut Cut { left: cut }));
								}
								for mode in [1u8, 2] {
									PAYLOAD_DEBUG.with(|m| m.set(mode));
									let _ = tc.nonacq(
										if mode == 1 { "debug(target), payload Debug returns Err" } else { "debug(target), payload Debug panics" },
										|| guarded(|| lk.debug_to(&mut String::new())).is_ok(),
									);
									PAYLOAD_DEBUG.with(|m| m.set(0));
								}
								// ... and still be usable: with nothing held a try on it succeeds
								if asg.iter().all(|h| *h == Hold::Free) {
									if let Some(k) = tc.key.take().or_else(ThreadKey::get) {
										w.begin_call(0, Class::Harness, "usable_probe", false);
										match guarded(|| lk.try_lock(k, Mode::Excl)) {
											Ok(TryOut::Ok(g)) => drop(g),
											Ok(TryOut::WouldBlock(k)) => {
												drop(k);
												tc.v("C17", "lock_unusable_after_nonacquiring_call", format!("{}: nothing is held, yet try_lock is refused after the target was formatted (with failing sinks / payload Debug)", target_desc(target)));
											}
											Err(_) => tc.v("C17", "lock_unusable_after_nonacquiring_call", format!("{}: try_lock panics after the target was formatted (with failing sinks / payload Debug)", target_desc(target))),
										}
										w.end_call(0);
										tc.key = ThreadKey::get();
									}
								}
							}
						});
						// the same while the calling thread's key is NOT alive (a formatter that
						// finds a free key must still not use it to wait for the lock)
						let k = tc.key.take();
						drop(k);
						tc.with_lk(target, |tc, lk, _| {
							let _ = tc.nonacq(if poisoned { "debug(target) with no live key, poisoned" } else { "debug(target) with no live key" }, || lk.debug());
							let _ = tc.nonacq("accessors(target) with no live key", || lk.accessors());
						});
						match ThreadKey::get() {
							Some(k) => tc.key = Some(k),
							None => tc.v("C17", "key_taken_by_nonacquiring_call", format!("after formatting {} the thread's key is gone", target_desc(target))),
						}
						n_ops += if poisoned { 4 } else { 18 };
						cases.push((format!("other:{}{}", asg_str(&asg), if poisoned { ":poisoned" } else { "" }), poisoned || asg.iter().any(|h| *h != Hold::Free)));
					}
				}
				w.phantom_release_all();
				// (B) held by the calling thread: live guard, and inside a scoped closure
				for (mode, poisoned) in [(Mode::Excl, false), (Mode::Shared, false), (Mode::Excl, true), (Mode::Shared, true)] {
					if mode == Mode::Shared && !readable {
						continue;
					}
					if poisoned {
						if pois_leaves.is_empty() {
							continue;
						}
						poison_all(tc);
					}
					let key = tc.key.take().or_else(ThreadKey::get);
					let Some(key) = key else {
						tc.v("C06", "key_not_obtainable", "C17 runner".into());
						break;
					};
					let back = tc.with_lk(target, |tc, lk, _| {
						w.begin_call(0, Class::Acquire, "c17.lock", false);
						let held = lk.lock(key, mode);
						w.end_call(0);
						let _ = tc.nonacq(if poisoned { "debug(target) under own guard, poisoned" } else { "debug(target) under own guard" }, || lk.debug());
						let _ = tc.nonacq(if poisoned { "debug(guard), poisoned" } else { "debug(guard)" }, || held.debug());
						if !poisoned {
							let _ = tc.nonacq("accessors(target) under own guard", || lk.accessors());
						}
						w.begin_call(0, Class::Release, "c17.unlock", false);
						let mut key = held.unlock();
						w.end_call(0);
						// inside a running scoped closure
						let cell = std::cell::RefCell::new(&mut *tc);
						let body = |_f: Flat<'_>, _p: Option<bool>| {
							let mut tc = cell.borrow_mut();
							let _ = tc.nonacq(if poisoned { "debug(target) inside scoped closure, poisoned" } else { "debug(target) inside scoped closure" }, || lk.debug());
							let _ = tc.nonacq("accessors(target) inside scoped closure", || lk.accessors());
						};
						w.begin_call(0, Class::Acquire, "c17.scoped", false);
						lk.scoped(KeyArg::Lent(&mut key), mode, &body);
						w.end_call(0);
						key
					});
					match back {
						Some(k) => tc.key = Some(k),
						None => break,
					}
					n_ops += 5;
					cases.push((format!("self:{:?}{}", mode, if poisoned { ":poisoned" } else { "" }), true));
				}
				// (C) every leaf lock KILLED (RawLock::poison - what a panicking raw operation does to a
				// lock): formatting and the accessors must neither block, panic nor touch a hold.
				// Irreversible, therefore the last pass of the episode.
				{
					use happylock::lockable::RawLock;
					w.phantom_release_all();
					for leaf in tc.arena.leaves.iter() {
						match leaf {
							Leaf::M(l) => l.poison(),
							Leaf::R(l) => l.poison(),
							Leaf::PM(l) => l.poison(),
							Leaf::PR(l) => l.poison(),
						}
					}
					for k in 0..=ids.len() {
						if k < ids.len() {
							w.phantom_hold(ids[k], Mode::Excl, k as u32, false);
						}
						tc.with_lk(target, |tc, lk, _| {
							let _ = tc.nonacq("debug(target), every leaf killed", || lk.debug());
							let _ = tc.nonacq("accessors(target), every leaf killed", || lk.accessors());
							let _ = tc.nonacq("debug(target) into a failing sink, every leaf killed", || lk.debug_to(&mut Cut { left: 20 }));
						});
						w.phantom_release_all();
						n_ops += 3;
					}
					cases.push(("killed".to_string(), true));
				}
				(n_ops, cases)
			});
			if let Some((n_ops, cases)) = res {
				rep.evaluations += n_ops;
				for (c, nt) in cases {
					if nt {
						rep.nontrivial.insert(hash_str(&format!("{case0} {c}")));
					}
					if rep.samples.len() < 3 && nt && c.len() % 3 == 0 {
						rep.samples.push(J::obj(vec![
							("shape", J::s(&case0)),
							("held_by", J::s(c)),
							("ops", J::s("Debug of target and guard, child/iter/as_ref/is_poisoned/clear_poison")),
						]));
					}
				}
			}
			rep.count("raw_ops", out.stats.raw_ops);
			rep.count("failed_raw_tries_in_debug", out.stats.failed_tries);
			rep.count("nonacq_calls", out.tstats.nonacq_calls);
			if let Some(a) = &out.aborted {
				rep.violations.push(VRec {
					prop: "C17".into(),
					rule: "nonacquiring_call_blocked".into(),
					detail: format!("{:?} {}", a, out.deadlock_witness),
					signature: "C17:nonacquiring_call_blocked".into(),
					case: case0.clone(),
					index: i,
					log: out.log.clone(),
				});
			}
			if let Some(m) = &out.unwound {
				rep.violations.push(VRec {
					prop: "C17".into(),
					rule: "unexpected_panic".into(),
					detail: m.clone(),
					signature: "C17:unexpected_panic".into(),
					case: case0.clone(),
					index: i,
					log: out.log.clone(),
				});
			}
			for v in &out.violations {
				rep.violations.push(VRec {
					prop: v.prop.into(),
					rule: v.rule.into(),
					detail: v.detail.clone(),
					signature: sig_of(v),
					case: case0.clone(),
					index: i,
					log: out.log.iter().rev().take(40).rev().cloned().collect(),
				});
			}
		}
	});
	rep.rule = format!("(a) every shape of sizes 0..{max_n} (as in C13) x every assignment of {{free, read-held, write-held by a phantom}} x both wake policies: Debug of the target + all &self accessors (child, iter, into_iter(&), as_ref, is_poisoned, clear_poison); (b) the same operations plus Debug of the guard while the calling thread itself holds the shape through a live guard and from inside a running scoped closure, read and write; (c) {owned_variants} variants of ownership-requiring operations (new/new_ref/from/from_iter/default/extend, get_mut, child_mut, iter_mut, into_child, into_inner of Mutex, RwLock, Poisonable and owned/boxed/ref/retrying collections of sizes 0..4) on locks that are free, phantom-held, or held through a guard leaked with mem::forget; every phantom-assignment case also formats the target into a sink that fails after 0..200 bytes and with a payload whose own Debug returns Err / panics (the formatting call ends early and must still restore every lock); every Debug / accessor case over shapes with Poisonable leaves is repeated with all those wrappers POISONED (re-poisoned before each group, since clear_poison is one of the operations); and a last time with every leaf lock KILLED (RawLock::poison); monitor: no blocking raw op inside the call and owner table equal before/after; non-trivial = some lock held during the call");
	rep
}
