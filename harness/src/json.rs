//! minimal JSON value + writer (no external crates)
#[derive(Clone, Debug)]
pub enum J {
	Null,
	Bool(bool),
	Int(i64),
	Num(f64),
	Str(String),
	Arr(Vec<J>),
	Obj(Vec<(String, J)>),
}

impl J {
	pub fn s(x: impl Into<String>) -> J {
		J::Str(x.into())
	}
	pub fn u(x: u64) -> J {
		J::Int(x as i64)
	}
	pub fn obj(v: Vec<(&str, J)>) -> J {
		J::Obj(v.into_iter().map(|(k, v)| (k.to_string(), v)).collect())
	}
	pub fn write(&self, out: &mut String) {
		match self {
			J::Null => out.push_str("null"),
			J::Bool(b) => out.push_str(if *b { "true" } else { "false" }),
			J::Int(i) => out.push_str(&i.to_string()),
			J::Num(n) => {
				if n.is_finite() {
					out.push_str(&format!("{n}"))
				} else {
					out.push_str("null")
				}
			}
			J::Str(s) => {
				out.push('"');
				for c in s.chars() {
					match c {
						'"' => out.push_str("\\\""),
						'\\' => out.push_str("\\\\"),
						'\n' => out.push_str("\\n"),
						'\r' => out.push_str("\\r"),
						'\t' => out.push_str("\\t"),
						c if (c as u32) < 0x20 => out.push_str(&format!("\\u{:04x}", c as u32)),
						c => out.push(c),
					}
				}
				out.push('"');
			}
			J::Arr(v) => {
				out.push('[');
				for (i, x) in v.iter().enumerate() {
					if i > 0 {
						out.push(',');
					}
					x.write(out);
				}
				out.push(']');
			}
			J::Obj(v) => {
				out.push('{');
				for (i, (k, x)) in v.iter().enumerate() {
					if i > 0 {
						out.push(',');
					}
					J::Str(k.clone()).write(out);
					out.push(':');
					x.write(out);
				}
				out.push('}');
			}
		}
	}
	pub fn to_string(&self) -> String {
		let mut s = String::new();
		self.write(&mut s);
		s
	}
}
