//! Episode runners: one program, one World, one schedule.

use std::sync::Arc;

use happylock::ThreadKey;

use crate::arena::*;
use crate::exec::*;
use crate::prog::*;
use crate::world::*;

#[derive(Clone, Debug)]
pub struct EpCfg {
	pub policy: Policy,
	pub strategy: Strategy,
	pub seed: u64,
	pub budget1: u64,
	pub budget2: u64,
	pub keep_log: bool,
	pub try_max: u32,
	pub poison_model: bool,
	/// one clean one-shot raw-lock panic: (thread, index of the raw operation in that thread)
	pub fault: Option<(Tid, u32)>,
}

#[derive(Clone, Debug)]
pub struct EpResult {
	pub violations: Vec<Violation>,
	pub aborted: Option<Abort>,
	pub stats: Stats,
	pub tstats: TStats,
	pub trace_hash: u64,
	pub log: Vec<String>,
	pub final_versions_checked: u32,
	pub deadlock_witness: String,
}

impl EpResult {
	pub fn contended(&self) -> bool {
		self.stats.blocked_acquires > 0
			|| self.stats.failed_tries > 0
			|| self.stats.shared_overlaps > 0
			|| self.stats.faults_fired > 0
	}
}

fn add(a: &mut TStats, b: &TStats) {
	a.acquisitions += b.acquisitions;
	a.try_failures += b.try_failures;
	a.given_up += b.given_up;
	a.sections += b.sections;
	a.closures += b.closures;
	a.key_reget += b.key_reget;
	a.panics_injected += b.panics_injected;
	a.nonacq_calls += b.nonacq_calls;
	a.in_unwind += b.in_unwind;
}

/// Consume the arena and read every payload back through into_inner (quiescent point):
/// C02 conservation — final version == number of completed exclusive sections.
fn final_payload_check(w: &Arc<World>, arena: Arena) -> u32 {
	let mut n = 0;
	let mut check = |c: Cell3, id: LockId, how: &str| {
		n += 1;
		let g = w.g();
		let want = g.writes_done[id as usize];
		drop(g);
		if c.lock_id != id {
			w.violate(
				"C02",
				"final_misrouted",
				format!("{how}: slot of lock {id} contains the payload of lock {}", c.lock_id),
			);
		} else if c.version != want || !c.valid() {
			w.violate(
				"C02",
				"conservation",
				format!(
					"{how}: lock {id} final version {} but {} exclusive sections completed",
					c.version, want
				),
			);
		}
	};
	let Arena {
		leaves,
		leaf_ids,
		units,
		unit_ids,
		..
	} = arena;
	for (leaf, id) in leaves.into_iter().zip(leaf_ids) {
		match leaf {
			Leaf::M(m) => check(m.into_inner(), id, "Mutex::into_inner"),
			Leaf::R(r) => check(r.into_inner(), id, "RwLock::into_inner"),
			Leaf::PM(p) => {
				let c = match p.into_inner() {
					Ok(c) => c,
					Err(e) => e.into_inner(),
				};
				check(c, id, "Poisonable<Mutex>::into_inner")
			}
			Leaf::PR(p) => {
				let c = match p.into_inner() {
					Ok(c) => c,
					Err(e) => e.into_inner(),
				};
				check(c, id, "Poisonable<RwLock>::into_inner")
			}
		}
	}
	for (unit, ids) in units.into_iter().zip(unit_ids) {
		let cells: Vec<Cell3> = match unit {
			Unit::OwnedM(c) => c.into_inner().into_vec(),
			Unit::OwnedR(c) => c.into_inner().into_vec(),
			Unit::BoxedM(c) => c.into_inner().into_vec(),
			Unit::BoxedR(c) => c.into_inner().into_vec(),
			Unit::RetryM(c) => c.into_inner().into_vec(),
			Unit::RetryR(c) => c.into_inner().into_vec(),
		};
		if cells.len() != ids.len() {
			w.violate(
				"C16",
				"into_inner_arity",
				format!("unit into_inner returned {} values for {} locks", cells.len(), ids.len()),
			);
			continue;
		}
		for (c, id) in cells.into_iter().zip(ids) {
			check(c, id, "unit.into_inner");
		}
	}
	n
}

/// An API call was unwound by a raw-lock panic (or by the up-front panic of a dead lock): with
/// clean faults the audit table is exactly what the library must assume, so the thread must hold
/// nothing and must be able to get its key.
fn fault_unwound(w: &Arc<World>, tc: &mut Tc<'_>, a: &Acq, what: &str) {
	tc.key = None;
	let held = w.held(tc.tid);
	match ThreadKey::get() {
		Some(k) => {
			if !held.is_empty() {
				w.violate(
					"C03",
					"key_back_while_holding",
					format!("{} unwound by {what}: the key is back while thread {} still holds {:?}", acq_desc(a), tc.tid, held),
				);
			}
			tc.key = Some(k);
		}
		None => w.violate("C12", "key_unobtainable_after_fault", format!("{} unwound by {what}: ThreadKey::get() is None", acq_desc(a))),
	}
	if !held.is_empty() {
		w.violate(
			"C12",
			"R2_lock_leaked",
			format!("{} unwound by {what}: thread {} still holds {:?}", acq_desc(a), tc.tid, held),
		);
		// let the rest of the episode run: give the leaked holds back
		w.forget_holds_of(tc.tid);
	}
}

/// Baton-mode episode: the program's threads interleaved by the seeded scheduler.
pub fn run_concurrent(prog: &Program, cfg: &EpCfg) -> EpResult {
	let n = prog.threads.len() as u32;
	let w = World::new(WorldCfg {
		exec: ExecMode::Baton,
		policy: cfg.policy,
		strategy: cfg.strategy,
		nthreads: n + 1,
		seed: cfg.seed,
		budget1: cfg.budget1,
		budget2: cfg.budget2,
		keep_log: cfg.keep_log,
	});
	let main_tid = n;
	set_current(Some((w.clone(), main_tid)));
	let mut key = ThreadKey::get().expect("controller thread must own its key");
	let arena = Arc::new(Arena::build(&w, &prog.arena, &mut key));
	drop(key);
	{
		let mut g = w.g();
		g.threads[main_tid as usize].status = Status::Finished;
	}
	if cfg.poison_model {
		let tracked: Vec<LockId> = arena
			.leaf_ids
			.iter()
			.zip(&arena.leaf_kinds)
			.filter(|(_, k)| k.is_pois())
			.map(|(id, _)| *id)
			.collect();
		w.pois_enable(&tracked);
	}
	if let Some((t, k)) = cfg.fault {
		w.add_fault(FaultSpec {
			tid: t,
			call: u32::MAX,
			op_index: 0,
			phase: Phase::Clean,
			fired: false,
			global_index: Some(k),
		});
	}
	let fault_mode = cfg.fault.is_some();
	let mut handles = Vec::new();
	for (tid, acqs) in prog.threads.iter().enumerate() {
		let w = w.clone();
		let arena = arena.clone();
		let acqs = acqs.clone();
		let try_max = cfg.try_max;
		handles.push(
			std::thread::Builder::new()
				.stack_size(256 * 1024)
				.spawn(move || {
					let tid = tid as Tid;
					set_current(Some((w.clone(), tid)));
					let mut tc = Tc::new(w.clone(), tid, &arena);
					tc.try_max = try_max;
					tc.concurrent = true;
					let r = guarded(|| {
						w.thread_start(tid);
						for a in &acqs {
							if fault_mode && !a.panic {
								// a raw lock operation of some thread panics once (clean phase); the
								// lock it hit is dead from then on and every later acquisition of it
								// panics up front - in whichever thread
								match guarded(|| tc.run_acq(a)) {
									Ok(()) => {}
									Err(Unwound::Abort) => bail(),
									Err(Unwound::InjectedFault) => fault_unwound(&w, &mut tc, a, "the injected raw-lock panic"),
									Err(Unwound::Other(m)) if m.contains("killed") => fault_unwound(&w, &mut tc, a, "the panic of a dead lock"),
									Err(Unwound::Other(m)) => w.violate("C12", "R1_panic_replaced", format!("{}: surfaced as '{m}'", acq_desc(a))),
									Err(Unwound::InjectedPanic) => w.violate("C11", "panic_without_request", acq_desc(a)),
								}
								continue;
							}
							if a.panic {
								let before = tc.stats.panics_injected;
								let bad_before = w.bad_releases_of(tid);
								let r = guarded(|| tc.run_acq(a));
								if w.bad_releases_of(tid) > bad_before {
									// C11: every lock held by the call is released exactly once, in its mode
									w.violate(
										"C11",
										"bad_release_around_panic",
										format!(
											"{}: thread {tid} issued {} release(s) the audit rejected (not held / wrong mode) while the call and its panic unwound",
											acq_desc(a),
											w.bad_releases_of(tid) - bad_before
										),
									);
								}
								match r {
									Ok(()) => {
										if tc.stats.panics_injected > before {
											w.violate(
												"C11",
												"panic_swallowed",
												format!("a panic raised inside {} did not reach the caller", acq_desc(a)),
											);
										}
									}
									Err(Unwound::InjectedPanic) => {
										// C11: caught at the client boundary
										tc.key = None;
										let held = w.held(tid);
										if !held.is_empty() {
											w.violate(
												"C11",
												"lock_leaked_by_panic",
												format!(
													"after a panic in {}: thread {tid} still holds {:?}",
													acq_desc(a),
													held
												),
											);
										}
										if !a.lent {
											match ThreadKey::get() {
												Some(k) => tc.key = Some(k),
												None => w.violate(
													"C11",
													"key_leaked_by_panic",
													format!("after a panic in {}: key not obtainable", acq_desc(a)),
												),
											}
										} else {
											// a lent key was owned by run_acq's frame and dropped by the unwind
											match ThreadKey::get() {
												Some(k) => tc.key = Some(k),
												None => w.violate(
													"C11",
													"key_leaked_by_panic",
													format!("after a panic in {} (lent key): key not obtainable", acq_desc(a)),
												),
											}
										}
									}
									Err(Unwound::Abort) => bail(),
									Err(Unwound::InjectedFault) => {}
									Err(Unwound::Other(m)) => {
										w.violate(
											"C11",
											"panic_replaced",
											format!("panic in {} surfaced as '{m}'", acq_desc(a)),
										);
									}
								}
							} else {
								tc.run_acq(a);
							}
						}
					});
					match r {
						Ok(()) | Err(Unwound::Abort) => {}
						Err(Unwound::Other(m)) => {
							w.violate("C01", "unexpected_panic", format!("thread {tid} panicked: {m}"))
						}
						Err(_) => w.violate(
							"C01",
							"unexpected_panic",
							format!("thread {tid}: injected payload escaped"),
						),
					}
					// drop the key before finishing so the thread-local is clean
					tc.key = None;
					let st = tc.stats.clone();
					drop(tc);
					w.thread_finish(tid);
					set_current(None);
					st
				})
				.expect("spawn"),
		);
	}
	w.kickoff(n);
	w.wait_done();
	let mut tstats = TStats::default();
	for h in handles {
		if let Ok(st) = h.join() {
			add(&mut tstats, &st);
		}
	}
	let mut checked = 0;
	let aborted = w.g().aborted.clone();
	if aborted.is_none() {
		// C05: when all threads have dropped their guards every lock is free again
		{
			let g = w.g();
			let mut leaks = Vec::new();
			for (i, l) in g.locks.iter().enumerate() {
				if !l.is_free() {
					leaks.push(format!("lock{i} excl={:?} shared={:?}", l.excl, l.shared));
				}
			}
			drop(g);
			if !leaks.is_empty() {
				w.violate(
					"C05",
					"hold_leaked_at_end",
					format!("all threads finished but: {}", leaks.join("; ")),
				);
			}
		}
		w.begin_setup();
		if let Ok(arena) = Arc::try_unwrap(arena) {
			checked = final_payload_check(&w, arena);
		}
	}
	set_current(None);
	let g = w.g();
	EpResult {
		violations: g.violations.clone(),
		aborted,
		stats: g.stats.clone(),
		tstats,
		trace_hash: g.trace_hash,
		log: g.log.iter().map(ev_to_string).collect(),
		final_versions_checked: checked,
		deadlock_witness: g.deadlock_witness.clone(),
	}
}
