//! tiny deterministic PRNG (splitmix64 seeding + xoshiro256**)
#[derive(Clone, Debug)]
pub struct Rng {
	s: [u64; 4],
}

fn splitmix(x: &mut u64) -> u64 {
	*x = x.wrapping_add(0x9E37_79B9_7F4A_7C15);
	let mut z = *x;
	z = (z ^ (z >> 30)).wrapping_mul(0xBF58_476D_1CE4_E5B9);
	z = (z ^ (z >> 27)).wrapping_mul(0x94D0_49BB_1331_11EB);
	z ^ (z >> 31)
}

impl Rng {
	pub fn new(seed: u64) -> Self {
		let mut x = seed;
		let s = [
			splitmix(&mut x),
			splitmix(&mut x),
			splitmix(&mut x),
			splitmix(&mut x),
		];
		Rng { s }
	}
	pub fn next_u64(&mut self) -> u64 {
		let r = self.s[1].wrapping_mul(5).rotate_left(7).wrapping_mul(9);
		let t = self.s[1] << 17;
		self.s[2] ^= self.s[0];
		self.s[3] ^= self.s[1];
		self.s[1] ^= self.s[2];
		self.s[0] ^= self.s[3];
		self.s[2] ^= t;
		self.s[3] = self.s[3].rotate_left(45);
		r
	}
	pub fn next_u32(&mut self) -> u32 {
		(self.next_u64() >> 32) as u32
	}
	/// uniform in 0..n (n > 0)
	pub fn below(&mut self, n: u32) -> u32 {
		if n <= 1 {
			return 0;
		}
		((self.next_u64() >> 32) * n as u64 >> 32) as u32
	}
	pub fn range(&mut self, lo: u32, hi_incl: u32) -> u32 {
		lo + self.below(hi_incl - lo + 1)
	}
	pub fn chance(&mut self, num: u32, den: u32) -> bool {
		self.below(den) < num
	}
	pub fn shuffle<T>(&mut self, v: &mut [T]) {
		for i in (1..v.len()).rev() {
			let j = self.below(i as u32 + 1) as usize;
			v.swap(i, j);
		}
	}
	pub fn pick<'a, T>(&mut self, v: &'a [T]) -> &'a T {
		&v[self.below(v.len() as u32) as usize]
	}
}

pub fn hash64(h: u64, v: u64) -> u64 {
	let mut x = h ^ v.wrapping_mul(0x9E37_79B9_7F4A_7C15);
	x ^= x >> 29;
	x = x.wrapping_mul(0xBF58_476D_1CE4_E5B9);
	x ^ (x >> 32)
}

pub fn hash_str(s: &str) -> u64 {
	let mut h = 0xcbf2_9ce4_8422_2325u64;
	for b in s.bytes() {
		h ^= b as u64;
		h = h.wrapping_mul(0x0100_0000_01b3);
	}
	h
}
