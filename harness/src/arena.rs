//! Lock arena and the dynamic `Member` shape.
//!
//! `Member` is a harness enum with `unsafe impl Lockable/Sharable` that only dispatches to the
//! variant's own implementation.  `Vec<Member>` is then a runtime-chosen member list that goes
//! through happylock's real `try_new`, sort, lock, try, rollback and retry code.

use std::sync::Arc;

use happylock::collection::{
	BoxedLockCollection, OwnedLockCollection, RefLockCollection, RetryingLockCollection,
};
use happylock::lockable::{Lockable, RawLock, Sharable};
use happylock::mutex::{Mutex, MutexRef};
use happylock::poisonable::{PoisonRef, PoisonResult, Poisonable};
use happylock::rwlock::{RwLock, RwLockReadRef, RwLockWriteRef};
use happylock::ThreadKey;

use crate::audit::{AuditMutex, AuditRwLock};
use crate::world::{set_reg_tag, LockId, World};

/// Payload of every lock.  `check` = f(lock_id, version).
#[derive(Clone, PartialEq, Eq)]
pub struct Cell3 {
	pub lock_id: u32,
	pub version: u64,
	pub check: u64,
}

thread_local! {
	/// how the payload's Debug behaves on this thread: 0 = prints, 1 = returns Err, 2 = panics
	pub static PAYLOAD_DEBUG: std::cell::Cell<u8> = const { std::cell::Cell::new(0) };
}

/// typed payload of the panic a payload's Debug raises in mode 2
pub struct PayloadDebugPanic;

impl std::fmt::Debug for Cell3 {
	fn fmt(&self, f: &mut std::fmt::Formatter<'_>) -> std::fmt::Result {
		match PAYLOAD_DEBUG.with(|m| m.get()) {
			1 => Err(std::fmt::Error),
			2 => std::panic::resume_unwind(Box::new(PayloadDebugPanic)),
			_ => f
				.debug_struct("Cell3")
				.field("lock_id", &self.lock_id)
				.field("version", &self.version)
				.field("check", &self.check)
				.finish(),
		}
	}
}

pub fn checksum(lock_id: u32, version: u64) -> u64 {
	crate::rng::hash64(lock_id as u64 + 0x1234, version)
}

impl Cell3 {
	pub fn new(lock_id: u32) -> Self {
		Cell3 {
			lock_id,
			version: 0,
			check: checksum(lock_id, 0),
		}
	}
	pub fn valid(&self) -> bool {
		self.check == checksum(self.lock_id, self.version)
	}
}

pub type M = Mutex<Cell3, AuditMutex>;
pub type R = RwLock<Cell3, AuditRwLock>;
pub type PM = Poisonable<M>;
pub type PR = Poisonable<R>;

pub type MRef<'g> = MutexRef<'g, Cell3, AuditMutex>;
pub type WRef<'g> = RwLockWriteRef<'g, Cell3, AuditRwLock>;
pub type RRef<'g> = RwLockReadRef<'g, Cell3, AuditRwLock>;

#[derive(Clone, Copy, PartialEq, Eq, Debug, Hash)]
pub enum LeafKind {
	M,
	R,
	PM,
	PR,
}
impl LeafKind {
	pub fn is_rw(self) -> bool {
		matches!(self, LeafKind::R | LeafKind::PR)
	}
	pub fn is_pois(self) -> bool {
		matches!(self, LeafKind::PM | LeafKind::PR)
	}
	pub fn name(self) -> &'static str {
		match self {
			LeafKind::M => "M",
			LeafKind::R => "R",
			LeafKind::PM => "PM",
			LeafKind::PR => "PR",
		}
	}
}

pub enum Leaf {
	M(M),
	R(R),
	PM(PM),
	PR(PR),
}

#[derive(Clone, Copy, PartialEq, Eq, Debug, Hash)]
pub enum UnitKind {
	OwnedM,
	OwnedR,
	BoxedM,
	BoxedR,
	RetryM,
	RetryR,
}
impl UnitKind {
	pub fn is_rw(self) -> bool {
		matches!(self, UnitKind::OwnedR | UnitKind::BoxedR | UnitKind::RetryR)
	}
	pub fn is_owned(self) -> bool {
		matches!(self, UnitKind::OwnedM | UnitKind::OwnedR)
	}
	pub fn is_retry(self) -> bool {
		matches!(self, UnitKind::RetryM | UnitKind::RetryR)
	}
	pub fn name(self) -> &'static str {
		match self {
			UnitKind::OwnedM => "OwnedM",
			UnitKind::OwnedR => "OwnedR",
			UnitKind::BoxedM => "BoxedM",
			UnitKind::BoxedR => "BoxedR",
			UnitKind::RetryM => "RetryM",
			UnitKind::RetryR => "RetryR",
		}
	}
}

/// arena-level collections that *own* their locks (shared by reference between threads)
pub enum Unit {
	OwnedM(OwnedLockCollection<Vec<M>>),
	OwnedR(OwnedLockCollection<Vec<R>>),
	BoxedM(BoxedLockCollection<Vec<M>>),
	BoxedR(BoxedLockCollection<Vec<R>>),
	RetryM(RetryingLockCollection<Vec<M>>),
	RetryR(RetryingLockCollection<Vec<R>>),
}

pub struct Arena {
	pub leaves: Vec<Leaf>,
	pub leaf_ids: Vec<LockId>,
	pub leaf_kinds: Vec<LeafKind>,
	pub units: Vec<Unit>,
	pub unit_kinds: Vec<UnitKind>,
	pub unit_ids: Vec<Vec<LockId>>,
}

// The arena is shared between the managed threads of an episode; the locks are audit locks
// whose state lives in the World.  `Mutex<_, AuditMutex>` is Sync because AuditMutex is.
unsafe impl Sync for Arena {}
unsafe impl Send for Arena {}

#[derive(Clone, Debug, PartialEq, Eq, Hash)]
pub struct ArenaSpec {
	pub leaves: Vec<LeafKind>,
	pub units: Vec<(UnitKind, usize)>,
}

fn new_m(w: &Arc<World>, key: &mut ThreadKey) -> (M, LockId) {
	let id = w.add_lock(false);
	let m = M::new(Cell3::new(id));
	set_reg_tag(Some(id));
	let _ = m.scoped_try_lock(&mut *key, |_| ());
	set_reg_tag(None);
	(m, id)
}
fn new_r(w: &Arc<World>, key: &mut ThreadKey) -> (R, LockId) {
	let id = w.add_lock(true);
	let r = R::new(Cell3::new(id));
	set_reg_tag(Some(id));
	let _ = r.scoped_try_read(&mut *key, |_| ());
	set_reg_tag(None);
	(r, id)
}

impl Arena {
	/// must be called while the World is in setup mode, on a thread that owns its key
	pub fn build(w: &Arc<World>, spec: &ArenaSpec, key: &mut ThreadKey) -> Arena {
		let mut a = Arena {
			leaves: Vec::new(),
			leaf_ids: Vec::new(),
			leaf_kinds: spec.leaves.clone(),
			units: Vec::new(),
			unit_kinds: Vec::new(),
			unit_ids: Vec::new(),
		};
		a.leaves.reserve_exact(spec.leaves.len());
		for k in &spec.leaves {
			let (leaf, id) = match k {
				LeafKind::M => {
					let (m, id) = new_m(w, key);
					(Leaf::M(m), id)
				}
				LeafKind::R => {
					let (r, id) = new_r(w, key);
					(Leaf::R(r), id)
				}
				LeafKind::PM => {
					let (m, id) = new_m(w, key);
					(Leaf::PM(Poisonable::new(m)), id)
				}
				LeafKind::PR => {
					let (r, id) = new_r(w, key);
					(Leaf::PR(Poisonable::new(r)), id)
				}
			};
			a.leaves.push(leaf);
			a.leaf_ids.push(id);
		}
		for (k, n) in &spec.units {
			let mut ids = Vec::new();
			let unit = if k.is_rw() {
				let mut v = Vec::new();
				for _ in 0..*n {
					let (r, id) = new_r(w, key);
					v.push(r);
					ids.push(id);
				}
				match k {
					UnitKind::OwnedR => Unit::OwnedR(OwnedLockCollection::new(v)),
					UnitKind::BoxedR => Unit::BoxedR(BoxedLockCollection::new(v)),
					UnitKind::RetryR => Unit::RetryR(RetryingLockCollection::new(v)),
					_ => unreachable!(),
				}
			} else {
				let mut v = Vec::new();
				for _ in 0..*n {
					let (m, id) = new_m(w, key);
					v.push(m);
					ids.push(id);
				}
				match k {
					UnitKind::OwnedM => Unit::OwnedM(OwnedLockCollection::new(v)),
					UnitKind::BoxedM => Unit::BoxedM(BoxedLockCollection::new(v)),
					UnitKind::RetryM => Unit::RetryM(RetryingLockCollection::new(v)),
					_ => unreachable!(),
				}
			};
			if k.is_owned() {
				// an owned collection is one indivisible unit for the C08/C09 monitors
				for id in &ids {
					w.set_group(*id, ids[0]);
				}
			}
			a.units.push(unit);
			a.unit_kinds.push(*k);
			a.unit_ids.push(ids);
		}
		a
	}

	pub fn leaf_member(&self, i: usize) -> Member<'_, '_> {
		match &self.leaves[i] {
			Leaf::M(m) => Member::M(m),
			Leaf::R(r) => Member::R(r),
			Leaf::PM(m) => Member::PM(m),
			Leaf::PR(r) => Member::PR(r),
		}
	}
	pub fn unit_member(&self, i: usize) -> Member<'_, '_> {
		match &self.units[i] {
			Unit::OwnedM(c) => Member::OwnedM(c),
			Unit::OwnedR(c) => Member::OwnedR(c),
			Unit::BoxedM(c) => Member::BoxedM(c),
			Unit::BoxedR(c) => Member::BoxedR(c),
			Unit::RetryM(c) => Member::RetryM(c),
			Unit::RetryR(c) => Member::RetryR(c),
		}
	}
}

pub type MemVec<'a> = Vec<Member<'a, 'a>>;

/// dynamic member: a reference to some lockable thing
pub enum Member<'a, 'b> {
	M(&'a M),
	R(&'a R),
	PM(&'a PM),
	PR(&'a PR),
	OwnedM(&'a OwnedLockCollection<Vec<M>>),
	OwnedR(&'a OwnedLockCollection<Vec<R>>),
	BoxedM(&'a BoxedLockCollection<Vec<M>>),
	BoxedR(&'a BoxedLockCollection<Vec<R>>),
	RetryM(&'a RetryingLockCollection<Vec<M>>),
	RetryR(&'a RetryingLockCollection<Vec<R>>),
	// thread-local nested dynamic collections (depth 2)
	Boxed(&'b BoxedLockCollection<MemVec<'a>>),
	Ref(&'b RefLockCollection<'b, MemVec<'a>>),
	Retry(&'b RetryingLockCollection<MemVec<'a>>),
	/// a Poisonable wrapped around a nested dynamic boxed collection
	PoisBoxed(&'b Poisonable<BoxedLockCollection<MemVec<'a>>>),
}

/// exclusive guard of a Member
#[derive(Debug)]
pub enum MGuard<'g> {
	M(MRef<'g>),
	W(WRef<'g>),
	PM(PoisonResult<PoisonRef<'g, MRef<'g>>>),
	PW(PoisonResult<PoisonRef<'g, WRef<'g>>>),
	VecM(Box<[MRef<'g>]>),
	VecW(Box<[WRef<'g>]>),
	Nested(Box<[MGuard<'g>]>),
	PoisNested(PoisonResult<PoisonRef<'g, Box<[MGuard<'g>]>>>),
}

/// shared guard of a Member
#[derive(Debug)]
pub enum MReadGuard<'g> {
	R(RRef<'g>),
	PR(PoisonResult<PoisonRef<'g, RRef<'g>>>),
	VecR(Box<[RRef<'g>]>),
	Nested(Box<[MReadGuard<'g>]>),
	PoisNested(PoisonResult<PoisonRef<'g, Box<[MReadGuard<'g>]>>>),
}

#[derive(Debug)]
pub enum MData<'x> {
	One(&'x mut Cell3),
	Pois(PoisonResult<&'x mut Cell3>),
	Vec(Box<[&'x mut Cell3]>),
	Nested(Box<[MData<'x>]>),
	PoisNested(PoisonResult<Box<[MData<'x>]>>),
}

#[derive(Debug)]
pub enum MDataRef<'x> {
	One(&'x Cell3),
	Pois(PoisonResult<&'x Cell3>),
	Vec(Box<[&'x Cell3]>),
	Nested(Box<[MDataRef<'x>]>),
	PoisNested(PoisonResult<Box<[MDataRef<'x>]>>),
}

unsafe impl<'a, 'b> Lockable for Member<'a, 'b> {
	type Guard<'g>
		= MGuard<'g>
	where
		Self: 'g;
	type DataMut<'x>
		= MData<'x>
	where
		Self: 'x;

	fn get_ptrs<'x>(&'x self, ptrs: &mut Vec<&'x dyn RawLock>) {
		match self {
			Member::M(l) => l.get_ptrs(ptrs),
			Member::R(l) => l.get_ptrs(ptrs),
			Member::PM(l) => l.get_ptrs(ptrs),
			Member::PR(l) => l.get_ptrs(ptrs),
			Member::OwnedM(l) => l.get_ptrs(ptrs),
			Member::OwnedR(l) => l.get_ptrs(ptrs),
			Member::BoxedM(l) => l.get_ptrs(ptrs),
			Member::BoxedR(l) => l.get_ptrs(ptrs),
			Member::RetryM(l) => l.get_ptrs(ptrs),
			Member::RetryR(l) => l.get_ptrs(ptrs),
			Member::Boxed(l) => l.get_ptrs(ptrs),
			Member::Ref(l) => l.get_ptrs(ptrs),
			Member::Retry(l) => l.get_ptrs(ptrs),
			Member::PoisBoxed(l) => l.get_ptrs(ptrs),
		}
	}

	unsafe fn guard(&self) -> Self::Guard<'_> {
		match self {
			Member::M(l) => MGuard::M(l.guard()),
			Member::R(l) => MGuard::W(l.guard()),
			Member::PM(l) => MGuard::PM(l.guard()),
			Member::PR(l) => MGuard::PW(l.guard()),
			Member::OwnedM(l) => MGuard::VecM(l.guard()),
			Member::OwnedR(l) => MGuard::VecW(l.guard()),
			Member::BoxedM(l) => MGuard::VecM(l.guard()),
			Member::BoxedR(l) => MGuard::VecW(l.guard()),
			Member::RetryM(l) => MGuard::VecM(l.guard()),
			Member::RetryR(l) => MGuard::VecW(l.guard()),
			Member::Boxed(l) => MGuard::Nested(l.guard()),
			Member::Ref(l) => MGuard::Nested(l.guard()),
			Member::Retry(l) => MGuard::Nested(l.guard()),
			Member::PoisBoxed(l) => MGuard::PoisNested(l.guard()),
		}
	}

	unsafe fn data_mut(&self) -> Self::DataMut<'_> {
		match self {
			Member::M(l) => MData::One(l.data_mut()),
			Member::R(l) => MData::One(l.data_mut()),
			Member::PM(l) => MData::Pois(l.data_mut()),
			Member::PR(l) => MData::Pois(l.data_mut()),
			Member::OwnedM(l) => MData::Vec(l.data_mut()),
			Member::OwnedR(l) => MData::Vec(l.data_mut()),
			Member::BoxedM(l) => MData::Vec(l.data_mut()),
			Member::BoxedR(l) => MData::Vec(l.data_mut()),
			Member::RetryM(l) => MData::Vec(l.data_mut()),
			Member::RetryR(l) => MData::Vec(l.data_mut()),
			Member::Boxed(l) => MData::Nested(l.data_mut()),
			Member::Ref(l) => MData::Nested(l.data_mut()),
			Member::Retry(l) => MData::Nested(l.data_mut()),
			Member::PoisBoxed(l) => MData::PoisNested(l.data_mut()),
		}
	}
}

unsafe impl<'a, 'b> Sharable for Member<'a, 'b> {
	type ReadGuard<'g>
		= MReadGuard<'g>
	where
		Self: 'g;
	type DataRef<'x>
		= MDataRef<'x>
	where
		Self: 'x;

	unsafe fn read_guard(&self) -> Self::ReadGuard<'_> {
		match self {
			Member::R(l) => MReadGuard::R(l.read_guard()),
			Member::PR(l) => MReadGuard::PR(l.read_guard()),
			Member::OwnedR(l) => MReadGuard::VecR(l.read_guard()),
			Member::BoxedR(l) => MReadGuard::VecR(l.read_guard()),
			Member::RetryR(l) => MReadGuard::VecR(l.read_guard()),
			Member::Boxed(l) => MReadGuard::Nested(l.read_guard()),
			Member::Ref(l) => MReadGuard::Nested(l.read_guard()),
			Member::Retry(l) => MReadGuard::Nested(l.read_guard()),
			Member::PoisBoxed(l) => MReadGuard::PoisNested(l.read_guard()),
			// the generator never puts a mutex-backed member into a read acquisition
			_ => unreachable!("read_guard on a mutex-backed member"),
		}
	}

	unsafe fn data_ref(&self) -> Self::DataRef<'_> {
		match self {
			Member::R(l) => MDataRef::One(l.data_ref()),
			Member::PR(l) => MDataRef::Pois(l.data_ref()),
			Member::OwnedR(l) => MDataRef::Vec(l.data_ref()),
			Member::BoxedR(l) => MDataRef::Vec(l.data_ref()),
			Member::RetryR(l) => MDataRef::Vec(l.data_ref()),
			Member::Boxed(l) => MDataRef::Nested(l.data_ref()),
			Member::Ref(l) => MDataRef::Nested(l.data_ref()),
			Member::Retry(l) => MDataRef::Nested(l.data_ref()),
			Member::PoisBoxed(l) => MDataRef::PoisNested(l.data_ref()),
			_ => unreachable!("data_ref on a mutex-backed member"),
		}
	}
}

// ---------------------------------------------------------------------------------------------
// flattening guards / data into payload references in *declared* order

/// (payload, poisoned-flag-of-the-enclosing-poisonable-if-any)
pub fn flat_guard_mut<'x>(g: &'x mut MGuard<'_>, out: &mut Vec<(&'x mut Cell3, Option<bool>)>) {
	match g {
		MGuard::M(r) => out.push((&mut **r, None)),
		MGuard::W(r) => out.push((&mut **r, None)),
		MGuard::PM(res) => match res {
			Ok(r) => out.push((&mut ***r, Some(false))),
			Err(e) => out.push((&mut ***e.get_mut(), Some(true))),
		},
		MGuard::PW(res) => match res {
			Ok(r) => out.push((&mut ***r, Some(false))),
			Err(e) => out.push((&mut ***e.get_mut(), Some(true))),
		},
		MGuard::VecM(v) => {
			for r in v.iter_mut() {
				out.push((&mut **r, None));
			}
		}
		MGuard::VecW(v) => {
			for r in v.iter_mut() {
				out.push((&mut **r, None));
			}
		}
		MGuard::Nested(v) => {
			for m in v.iter_mut() {
				flat_guard_mut(m, out);
			}
		}
		MGuard::PoisNested(res) => {
			let v: &mut Box<[MGuard<'_>]> = match res {
				Ok(r) => &mut **r,
				Err(e) => &mut **e.get_mut(),
			};
			for m in v.iter_mut() {
				flat_guard_mut(m, out);
			}
		}
	}
}

pub fn flat_guard_ref<'x>(g: &'x MReadGuard<'_>, out: &mut Vec<(&'x Cell3, Option<bool>)>) {
	match g {
		MReadGuard::R(r) => out.push((&**r, None)),
		MReadGuard::PR(res) => match res {
			Ok(r) => out.push((&***r, Some(false))),
			Err(e) => out.push((&***e.get_ref(), Some(true))),
		},
		MReadGuard::VecR(v) => {
			for r in v.iter() {
				out.push((&**r, None));
			}
		}
		MReadGuard::Nested(v) => {
			for m in v.iter() {
				flat_guard_ref(m, out);
			}
		}
		MReadGuard::PoisNested(res) => {
			let v: &Box<[MReadGuard<'_>]> = match res {
				Ok(r) => &**r,
				Err(e) => &**e.get_ref(),
			};
			for m in v.iter() {
				flat_guard_ref(m, out);
			}
		}
	}
}

pub fn flat_data_mut<'x>(d: MData<'x>, out: &mut Vec<(&'x mut Cell3, Option<bool>)>) {
	match d {
		MData::One(r) => out.push((r, None)),
		MData::Pois(res) => match res {
			Ok(r) => out.push((r, Some(false))),
			Err(e) => out.push((e.into_inner(), Some(true))),
		},
		MData::Vec(v) => {
			for r in v.into_vec() {
				out.push((r, None));
			}
		}
		MData::Nested(v) => {
			for m in v.into_vec() {
				flat_data_mut(m, out);
			}
		}
		MData::PoisNested(res) => {
			let v = match res {
				Ok(v) => v,
				Err(e) => e.into_inner(),
			};
			for m in v.into_vec() {
				flat_data_mut(m, out);
			}
		}
	}
}

pub fn flat_data_ref<'x>(d: MDataRef<'x>, out: &mut Vec<(&'x Cell3, Option<bool>)>) {
	match d {
		MDataRef::One(r) => out.push((r, None)),
		MDataRef::Pois(res) => match res {
			Ok(r) => out.push((r, Some(false))),
			Err(e) => out.push((e.into_inner(), Some(true))),
		},
		MDataRef::Vec(v) => {
			for r in v.into_vec() {
				out.push((r, None));
			}
		}
		MDataRef::Nested(v) => {
			for m in v.into_vec() {
				flat_data_ref(m, out);
			}
		}
		MDataRef::PoisNested(res) => {
			let v = match res {
				Ok(v) => v,
				Err(e) => e.into_inner(),
			};
			for m in v.into_vec() {
				flat_data_ref(m, out);
			}
		}
	}
}

impl std::fmt::Debug for Member<'_, '_> {
	fn fmt(&self, f: &mut std::fmt::Formatter<'_>) -> std::fmt::Result {
		match self {
			Member::M(l) => l.fmt(f),
			Member::R(l) => l.fmt(f),
			Member::PM(l) => l.fmt(f),
			Member::PR(l) => l.fmt(f),
			Member::OwnedM(l) => l.fmt(f),
			Member::OwnedR(l) => l.fmt(f),
			Member::BoxedM(l) => l.fmt(f),
			Member::BoxedR(l) => l.fmt(f),
			Member::RetryM(l) => l.fmt(f),
			Member::RetryR(l) => l.fmt(f),
			Member::Boxed(l) => l.fmt(f),
			Member::Ref(l) => l.fmt(f),
			Member::Retry(l) => l.fmt(f),
			Member::PoisBoxed(l) => l.fmt(f),
		}
	}
}
