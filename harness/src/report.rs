//! run configuration, parallel driver and the report every property runner returns
use std::collections::{BTreeMap, HashSet};
use std::sync::atomic::{AtomicU64, AtomicUsize, Ordering};
use std::sync::Mutex;
use std::time::Instant;

use crate::json::J;

#[derive(Clone, Debug)]
pub struct RunCfg {
	pub prop: String,
	pub thorough: bool,
	pub seed: u64,
	pub jobs: usize,
	pub only: Option<u64>,
	pub verbose: bool,
	pub scale: f64,
	pub max_seconds: f64,
	/// signatures of known findings: counted, one example kept, never stop the run early
	pub known: Vec<String>,
	/// property whose check is running: only its violations stop a run early
	pub target_prop: Option<String>,
	pub miri: bool,
	/// running under an external leak detector: do not leak on purpose
	pub leakcheck: bool,
	/// (k, n): only items with index % n == k
	pub shard: (u64, u64),
}

#[derive(Clone, Debug)]
pub struct VRec {
	pub prop: String,
	pub rule: String,
	pub detail: String,
	/// stable signature for the known-findings file
	pub signature: String,
	pub case: String,
	pub index: u64,
	pub log: Vec<String>,
}

#[derive(Default)]
pub struct Report {
	pub evaluations: u64,
	pub nontrivial: HashSet<u64>,
	pub rule: String,
	pub samples: Vec<J>,
	pub counters: BTreeMap<String, u64>,
	pub violations: Vec<VRec>,
	pub inconclusive: Vec<String>,
	pub exhaustive: bool,
	pub notes: Vec<String>,
	pub known_hits: BTreeMap<String, (u64, VRec)>,
}

impl Report {
	pub fn count(&mut self, k: &str, n: u64) {
		*self.counters.entry(k.to_string()).or_insert(0) += n;
	}
	pub fn merge(&mut self, o: Report) {
		self.evaluations += o.evaluations;
		self.nontrivial.extend(o.nontrivial);
		for (k, v) in o.counters {
			*self.counters.entry(k).or_insert(0) += v;
		}
		for s in o.samples {
			if self.samples.len() < 8 {
				self.samples.push(s);
			}
		}
		for v in o.violations {
			if self.violations.len() < 600 || std::env::var_os("HLMON_KEEP_GOING").is_some() {
				self.violations.push(v);
			}
		}
		self.inconclusive.extend(o.inconclusive);
		self.notes.extend(o.notes);
		for (k, (n, ex)) in o.known_hits {
			let e = self.known_hits.entry(k).or_insert((0, ex));
			e.0 += n;
		}
	}
	pub fn to_json(&self, cfg: &RunCfg, wall: f64) -> J {
		J::obj(vec![
			("property_id", J::s(&cfg.prop)),
			("tier", J::s(if cfg.thorough { "thorough" } else { "quick" })),
			("seed", J::u(cfg.seed)),
			("wall_s", J::Num((wall * 100.0).round() / 100.0)),
			("evaluations", J::u(self.evaluations)),
			("distinct_nontrivial", J::u(self.nontrivial.len() as u64)),
			("rule", J::s(&self.rule)),
			("exhaustive", J::Bool(self.exhaustive)),
			("samples", J::Arr(self.samples.clone())),
			(
				"counters",
				J::Obj(self.counters.iter().map(|(k, v)| (k.clone(), J::u(*v))).collect()),
			),
			(
				"violations",
				J::Arr(
					self.violations
						.iter()
						.map(|v| {
							J::obj(vec![
								("prop", J::s(&v.prop)),
								("rule", J::s(&v.rule)),
								("detail", J::s(&v.detail)),
								("signature", J::s(&v.signature)),
								("case", J::s(&v.case)),
								("index", J::u(v.index)),
								("log", J::Arr(v.log.iter().map(J::s).collect())),
							])
						})
						.collect(),
				),
			),
			(
				"known_hits",
				J::Arr(
					self.known_hits
						.iter()
						.map(|(k, (n, v))| {
							J::obj(vec![
								("signature", J::s(k)),
								("count", J::u(*n)),
								("prop", J::s(&v.prop)),
								("rule", J::s(&v.rule)),
								("detail", J::s(&v.detail)),
								("case", J::s(&v.case)),
								("index", J::u(v.index)),
							])
						})
						.collect(),
				),
			),
			("inconclusive", J::Arr(self.inconclusive.iter().map(J::s).collect())),
			("notes", J::Arr(self.notes.iter().map(J::s).collect())),
		])
	}
}

/// Run `items` work items on `jobs` worker threads; each worker folds its results into a
/// local Report; stops handing out items after `max_seconds`.
pub fn par_run(
	cfg: &RunCfg,
	items: u64,
	f: impl Fn(u64, &mut Report) + Sync,
) -> (Report, u64) {
	let next = AtomicU64::new(0);
	let done = AtomicU64::new(0);
	let start = Instant::now();
	let total = Mutex::new(Report::default());
	let nviol = AtomicUsize::new(0);
	std::thread::scope(|s| {
		for _ in 0..cfg.jobs.max(1) {
			s.spawn(|| {
				let mut local = Report::default();
				loop {
					let i = match cfg.only {
						Some(o) => {
							if next.fetch_add(1, Ordering::Relaxed) == 0 {
								o
							} else {
								break;
							}
						}
						None => {
							let i = next.fetch_add(1, Ordering::Relaxed);
							if i >= items {
								break;
							}
							if i % cfg.shard.1 != cfg.shard.0 {
								continue;
							}
							i
						}
					};
					if start.elapsed().as_secs_f64() > cfg.max_seconds {
						break;
					}
					if nviol.load(Ordering::Relaxed) > 40 && std::env::var_os("HLMON_KEEP_GOING").is_none() {
						break;
					}
					let before = local.violations.len();
					f(i, &mut local);
					// known findings: count, keep one example, do not stop the run
					let mut k = before;
					while k < local.violations.len() {
						if cfg.known.iter().any(|s| *s == local.violations[k].signature) {
							let v = local.violations.remove(k);
							let e = local.known_hits.entry(v.signature.clone()).or_insert((0, v));
							e.0 += 1;
						} else {
							k += 1;
						}
					}
					let counted = local.violations[before..]
						.iter()
						.filter(|v| cfg.target_prop.as_ref().map_or(true, |t| *t == v.prop))
						.count();
					nviol.fetch_add(counted, Ordering::Relaxed);
					// keep memory bounded when another property's monitor fires a lot
					if local.violations.len() > 400 {
						let t = cfg.target_prop.clone();
						let mut kept = 0;
						local.violations.retain(|v| {
							if t.as_ref().map_or(false, |t| *t == v.prop) {
								true
							} else {
								kept += 1;
								kept <= 100
							}
						});
					}
					done.fetch_add(1, Ordering::Relaxed);
				}
				total.lock().unwrap().merge(local);
			});
		}
	});
	(total.into_inner().unwrap(), done.load(Ordering::Relaxed))
}

/// stable signature of a World violation: `prop:rule` or `prop:rule:route` when the detail
/// starts with `route=<route>|`
pub fn sig_of(v: &crate::world::Violation) -> String {
	match v.detail.strip_prefix("route=").and_then(|d| d.split('|').next()) {
		Some(route) if !route.is_empty() => format!("{}:{}:{}", v.prop, v.rule, route),
		_ => format!("{}:{}", v.prop, v.rule),
	}
}
