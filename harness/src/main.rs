#![allow(dead_code, unused_variables, unused_imports, unused_assignments, unused_mut, clippy::all)]
mod arena;
mod audit;
mod episode;
mod exec;
mod json;
mod lk;
mod prog;
mod props;
mod report;
mod rng;
mod solo;
mod world;

use std::time::Instant;

use report::{Report, RunCfg};

fn usage() -> ! {
	eprintln!("usage: hlmon <prop> [--thorough] [--seed N] [--jobs N] [--only I] [--verbose] [--out FILE] [--scale F] [--max-seconds S]");
	std::process::exit(2)
}

fn main() {
	let args: Vec<String> = std::env::args().collect();
	if args.len() < 2 {
		usage();
	}
	let mut cfg = RunCfg {
		prop: args[1].clone(),
		thorough: false,
		seed: 1,
		jobs: std::thread::available_parallelism().map(|n| n.get()).unwrap_or(4),
		only: None,
		verbose: false,
		scale: 1.0,
		max_seconds: 1e9,
		known: Vec::new(),
		target_prop: None,
		miri: cfg!(miri),
		leakcheck: false,
		shard: (0, 1),
	};
	let mut out: Option<String> = None;
	let mut i = 2;
	while i < args.len() {
		match args[i].as_str() {
			"--thorough" => cfg.thorough = true,
			"--verbose" => cfg.verbose = true,
			"--seed" => {
				i += 1;
				cfg.seed = args[i].parse().unwrap_or_else(|_| usage());
			}
			"--jobs" => {
				i += 1;
				cfg.jobs = args[i].parse().unwrap_or_else(|_| usage());
			}
			"--only" => {
				i += 1;
				cfg.only = Some(args[i].parse().unwrap_or_else(|_| usage()));
			}
			"--scale" => {
				i += 1;
				cfg.scale = args[i].parse().unwrap_or_else(|_| usage());
			}
			"--max-seconds" => {
				i += 1;
				cfg.max_seconds = args[i].parse().unwrap_or_else(|_| usage());
			}
			"--leakcheck" => cfg.leakcheck = true,
			"--target-prop" => {
				i += 1;
				cfg.target_prop = Some(args[i].clone());
			}
			"--shard" => {
				i += 1;
				let (a, b) = args[i].split_once('/').unwrap_or_else(|| usage());
				cfg.shard = (a.parse().unwrap_or_else(|_| usage()), b.parse().unwrap_or_else(|_| usage()));
			}
			"--known" => {
				i += 1;
				cfg.known = args[i].split(';').filter(|s| !s.is_empty()).map(|s| s.to_string()).collect();
			}
			"--out" => {
				i += 1;
				out = Some(args[i].clone());
			}
			_ => usage(),
		}
		i += 1;
	}
	// quiet panic hook: injected payloads use resume_unwind (no hook); anything else is kept
	// short so that a mutated tree does not flood stderr
	std::panic::set_hook(Box::new(|info| {
		if std::env::var_os("HLMON_PANIC_TRACE").is_some() {
			eprintln!("panic: {info}");
		}
	}));
	let t0 = Instant::now();
	let rep: Report = match cfg.prop.as_str() {
		"conc" | "conc_retry" | "conc_panic" | "conc_fault" => {
			let mut gen = prog::GenCfg::default();
			if cfg.prop == "conc_retry" {
				gen.retry_bias = true;
			}
			if cfg.prop == "conc_panic" {
				gen.allow_panic = true;
			}
			if cfg.prop == "conc_fault" {
				gen.allow_unwind = false;
			}
			let plan = props::conc::ConcPlan {
				programs: ((if cfg.thorough { 20000.0 } else { 1200.0 }) * cfg.scale) as u64,
				schedules: if cfg.thorough { 12 } else { 6 },
				gen,
				label: match cfg.prop.as_str() {
					"conc_retry" => "concurrent, retrying collections favoured",
					"conc_panic" => "concurrent, panicking critical sections",
					"conc_fault" => "concurrent, one clean raw-lock panic per episode (lock/try panics before taking effect, unlock after; thread and raw-op index drawn per item); a call unwound by it - or by the up-front panic of the lock it killed - must leave its thread holding nothing with its key obtainable",
					_ => "concurrent",
				},
				faults: cfg.prop == "conc_fault",
			};
			props::conc::run(&cfg, &plan)
		}
		"racefam" => props::racefam::run(&cfg),
		"canary_race" => {
			props::racefam::canary("race");
			return;
		}
		"canary_leak" => {
			props::racefam::canary("leak");
			return;
		}
		"canary_uaf" => {
			props::racefam::canary("uaf");
			return;
		}
		"dropfam" => props::dropfam::run(&cfg),
		"dupfam" => props::dupfam::run(&cfg),
		"faultfam" => props::faultfam::run(&cfg),
		"keyfam" => props::keyfam::run(&cfg),
		"nonacqfam" => props::nonacqfam::run(&cfg),
		"panicfam" => props::panicfam::run(&cfg),
		"poisonfam" => props::poisonfam::run(&cfg, false),
		"poisonsoak" => props::poisonfam::run(&cfg, true),
		"ownedconc" => props::ownedconc::run(&cfg),
		"orderfam" => props::orderfam::run(&cfg),
		"seqfam" => props::seqfam::run(&cfg),
		"tuplefam" => props::tuplefam::run(&cfg),
		"tryfam" => props::tryfam::run(&cfg),
		"blockfam" => props::tryfam::run_fam(&cfg, true),
		_ => {
			eprintln!("unknown property {}", cfg.prop);
			std::process::exit(2);
		}
	};
	let wall = t0.elapsed().as_secs_f64();
	let j = rep.to_json(&cfg, wall).to_string();
	match out {
		Some(p) => std::fs::write(&p, j).expect("write report"),
		None => println!("{j}"),
	}
}
