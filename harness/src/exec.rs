//! Interpreter: performs one acquisition (`Acq`) against the real happylock API with the
//! client-boundary monitors around it.

use std::cell::{Cell, RefCell};
use std::panic::{catch_unwind, resume_unwind, AssertUnwindSafe};
use std::sync::Arc;

use happylock::collection::{BoxedLockCollection, RefLockCollection, RetryingLockCollection};
use happylock::poisonable::Poisonable;
use happylock::ThreadKey;

use crate::arena::*;
use crate::lk::*;
use crate::prog::*;
use crate::world::*;

#[derive(Default, Clone, Debug)]
pub struct TStats {
	pub acquisitions: u64,
	pub try_failures: u64,
	pub given_up: u64,
	pub sections: u64,
	pub closures: u64,
	pub key_reget: u64,
	pub panics_injected: u64,
	pub nonacq_calls: u64,
	pub in_unwind: u64,
}

pub struct Tc<'a> {
	pub w: Arc<World>,
	pub tid: Tid,
	pub arena: &'a Arena,
	pub key: Option<ThreadKey>,
	pub try_max: u32,
	pub stats: TStats,
	pub fault_mode: bool,
	/// true = an acquisition succeeded, false = one try attempt failed (in order)
	pub outcomes: Vec<bool>,
	/// raw ops of the most recent successful acquisition call (C08 order monitor)
	pub last_ops: Vec<RawRec>,
	/// leaf indices whose poison is cleared from inside the next critical section (C10)
	pub clear_inside: Vec<usize>,
	/// other managed threads run concurrently (Baton mode)
	pub concurrent: bool,
}

pub fn expected_ids_member(a: &Arena, m: &MemberSpec, out: &mut Vec<LockId>) {
	match m {
		MemberSpec::Leaf(i) => out.push(a.leaf_ids[*i]),
		MemberSpec::Unit(u) => out.extend(a.unit_ids[*u].iter().copied()),
		MemberSpec::Nested(_, v) | MemberSpec::PoisNested(v) => {
			for m in v {
				expected_ids_member(a, m, out);
			}
		}
	}
}

pub fn expected_ids(a: &Arena, t: &Target) -> Vec<LockId> {
	let mut out = Vec::new();
	match t {
		Target::Leaf(i) => out.push(a.leaf_ids[*i]),
		Target::Unit(u) => out.extend(a.unit_ids[*u].iter().copied()),
		Target::Coll(_, v) | Target::PoisColl(_, v) => {
			for m in v {
				expected_ids_member(a, m, &mut out);
			}
		}
	}
	out
}

/// is lock `id` an rwlock (then a Shared request is held Shared), else always Excl
pub fn hold_mode(w: &World, id: LockId, req: Mode) -> Mode {
	if w.g().locks[id as usize].is_rw {
		req
	} else {
		Mode::Excl
	}
}

fn sorted<T: Ord + Clone>(v: &[T]) -> Vec<T> {
	let mut v = v.to_vec();
	v.sort();
	v
}

impl<'a> Tc<'a> {
	pub fn new(w: Arc<World>, tid: Tid, arena: &'a Arena) -> Self {
		Tc {
			w,
			tid,
			arena,
			key: None,
			try_max: 40,
			stats: TStats::default(),
			fault_mode: false,
			outcomes: Vec::new(),
			last_ops: Vec::new(),
			clear_inside: Vec::new(),
			concurrent: false,
		}
	}

	pub fn v(&self, prop: &'static str, rule: &'static str, detail: String) {
		self.w.violate(prop, rule, detail);
	}

	/// a non-acquiring API call with the C17 monitor around it
	pub fn nonacq<T>(&mut self, label: &'static str, f: impl FnOnce() -> T) -> T {
		if self.concurrent {
			// other threads run during the call: only this thread's own holds can be compared
			// (a release of somebody else's hold is caught by the release audit, C05)
			let before = self.w.held(self.tid);
			self.w.begin_call(self.tid, Class::NonAcq, label, false);
			let r = f();
			let ops = self.w.end_call(self.tid);
			self.stats.nonacq_calls += 1;
			if ops.iter().any(|o| o.op == Op::Lock) {
				self.v(
					"C17",
					"blocking_op_in_nonacquiring_call",
					format!("{label}: issued a blocking raw lock operation"),
				);
			}
			let after = self.w.held(self.tid);
			if before != after {
				self.v(
					"C17",
					"hold_state_changed",
					format!("{label}: the caller held {:?} before and {:?} after a non-acquiring call", before, after),
				);
			}
			return r;
		}
		let before = self.w.snapshot();
		self.w.begin_call(self.tid, Class::NonAcq, label, false);
		let r = f();
		let ops = self.w.end_call(self.tid);
		self.stats.nonacq_calls += 1;
		if ops.iter().any(|o| o.op == Op::Lock) {
			self.v(
				"C17",
				"blocking_op_in_nonacquiring_call",
				format!("{label}: issued a blocking raw lock operation"),
			);
		}
		let after = self.w.snapshot();
		// locks registered during the call (constructors) must be free; older ones unchanged
		let changed = after.len() < before.len()
			|| after[..before.len()] != before[..]
			|| after[before.len()..].iter().any(|(e, s)| e.is_some() || !s.is_empty());
		if changed {
			self.v(
				"C17",
				"hold_state_changed",
				format!("{label}: owner table changed across a non-acquiring call"),
			);
		}
		r
	}

	fn take_key(&mut self, what: &str) -> Option<ThreadKey> {
		if let Some(k) = self.key.take() {
			return Some(k);
		}
		self.stats.key_reget += 1;
		match ThreadKey::get() {
			Some(k) => Some(k),
			None => {
				self.v(
					"C06",
					"key_not_obtainable",
					format!("thread {} has no key and ThreadKey::get() is None before {what}", self.tid),
				);
				None
			}
		}
	}

	/// run one acquisition of `acq`
	pub fn run_acq(&mut self, acq: &Acq) {
		let t = acq.target.clone();
		if acq.unwind {
			// the whole call - acquisition, critical section, release - is made from a destructor
			// that runs while the thread unwinds from an unrelated panic
			self.stats.in_unwind += 1;
			in_unwind(|| self.with_lk(&t, |tc, lk, exp| tc.do_acq(lk, acq, exp)));
		} else {
			self.with_lk(&t, |tc, lk, exp| tc.do_acq(lk, acq, exp));
		}
	}

	/// materialise `target` and hand it over as `&dyn Lk` together with the expected leaf ids
	/// in declared order
	pub fn with_lk<T>(
		&mut self,
		target: &Target,
		k: impl FnOnce(&mut Tc<'a>, &dyn Lk, &[LockId]) -> T,
	) -> Option<T> {
		let arena: &'a Arena = self.arena;
		let exp = expected_ids(arena, target);
		let dupmsg = |what: &str| format!("{what} rejected duplicate-free {}", target_desc(target));
		match target {
			Target::Leaf(i) => Some(match &arena.leaves[*i] {
				Leaf::M(l) => k(self, l, &exp),
				Leaf::R(l) => k(self, l, &exp),
				Leaf::PM(l) => k(self, l, &exp),
				Leaf::PR(l) => k(self, l, &exp),
			}),
			Target::Unit(u) => Some(match &arena.units[*u] {
				Unit::OwnedM(c) => k(self, c, &exp),
				Unit::OwnedR(c) => k(self, c, &exp),
				Unit::BoxedM(c) => k(self, c, &exp),
				Unit::BoxedR(c) => k(self, c, &exp),
				Unit::RetryM(c) => k(self, c, &exp),
				Unit::RetryR(c) => k(self, c, &exp),
			}),
			Target::Coll(kind, members) => self
				.with_members(members, |tc, outer| match kind {
					CollKind::Boxed => {
						let c = tc.nonacq("Boxed::try_new", || BoxedLockCollection::try_new(outer));
						match c {
							Some(c) => Some(k(tc, &c, &exp)),
							None => {
								tc.v("C07", "false_duplicate", dupmsg("Boxed::try_new"));
								None
							}
						}
					}
					CollKind::Ref => {
						let c = tc.nonacq("Ref::try_new", || RefLockCollection::try_new(&outer));
						match c {
							Some(c) => Some(k(tc, &c, &exp)),
							None => {
								tc.v("C07", "false_duplicate", dupmsg("Ref::try_new"));
								None
							}
						}
					}
					CollKind::Retry => {
						let c = tc.nonacq("Retry::try_new", || RetryingLockCollection::try_new(outer));
						match c {
							Some(c) => Some(k(tc, &c, &exp)),
							None => {
								tc.v("C07", "false_duplicate", dupmsg("Retry::try_new"));
								None
							}
						}
					}
				})
				.flatten(),
			Target::PoisColl(CollKind::Retry, members) => self
				.with_members(members, |tc, outer| {
					let c = tc.nonacq("Retry::try_new", || RetryingLockCollection::try_new(outer));
					match c {
						Some(c) => {
							let p = Poisonable::new(c);
							Some(k(tc, &p, &exp))
						}
						None => {
							tc.v("C07", "false_duplicate", dupmsg("Retry::try_new"));
							None
						}
					}
				})
				.flatten(),
			Target::PoisColl(_, members) => self
				.with_members(members, |tc, outer| {
					let c = tc.nonacq("Boxed::try_new", || BoxedLockCollection::try_new(outer));
					match c {
						Some(c) => {
							let p = Poisonable::new(c);
							Some(k(tc, &p, &exp))
						}
						None => {
							tc.v("C07", "false_duplicate", dupmsg("Boxed::try_new"));
							None
						}
					}
				})
				.flatten(),
		}
	}

	/// materialise a member list (nested collections first) and hand the outer Vec<Member>
	/// to `k`
	pub fn with_members<T>(
		&mut self,
		members: &[MemberSpec],
		k: impl for<'b> FnOnce(&mut Tc<'a>, Vec<Member<'a, 'b>>) -> T,
	) -> Option<T> {
		let arena: &'a Arena = self.arena;
		let leafvec = |v: &[MemberSpec]| -> MemVec<'a> {
			v.iter()
				.map(|m| match m {
					MemberSpec::Leaf(i) => arena.leaf_member(*i),
					MemberSpec::Unit(u) => arena.unit_member(*u),
					_ => panic!("nesting deeper than 2"),
				})
				.collect()
		};
		// vectors for Ref-kind nested collections must outlive the collections
		let mut ref_vecs: Vec<MemVec<'a>> = Vec::new();
		for m in members {
			if let MemberSpec::Nested(CollKind::Ref, v) = m {
				ref_vecs.push(leafvec(v));
			}
		}
		enum Inner<'a, 'v> {
			Boxed(BoxedLockCollection<MemVec<'a>>),
			Ref(RefLockCollection<'v, MemVec<'a>>),
			Retry(RetryingLockCollection<MemVec<'a>>),
			Pois(Poisonable<BoxedLockCollection<MemVec<'a>>>),
		}
		let mut inners: Vec<Inner<'a, '_>> = Vec::new();
		let mut ri = 0;
		let mut failed = false;
		for m in members {
			match m {
				MemberSpec::Nested(CollKind::Boxed, v) => {
					let mv = leafvec(v);
					match self.nonacq("Boxed::try_new(inner)", || BoxedLockCollection::try_new(mv)) {
						Some(c) => inners.push(Inner::Boxed(c)),
						None => failed = true,
					}
				}
				MemberSpec::Nested(CollKind::Ref, _) => {
					let rv = &ref_vecs[ri];
					ri += 1;
					match self.nonacq("Ref::try_new(inner)", || RefLockCollection::try_new(rv)) {
						Some(c) => inners.push(Inner::Ref(c)),
						None => failed = true,
					}
				}
				MemberSpec::Nested(CollKind::Retry, v) => {
					let mv = leafvec(v);
					match self
						.nonacq("Retry::try_new(inner)", || RetryingLockCollection::try_new(mv))
					{
						Some(c) => inners.push(Inner::Retry(c)),
						None => failed = true,
					}
				}
				MemberSpec::PoisNested(v) => {
					let mv = leafvec(v);
					match self.nonacq("Boxed::try_new(inner)", || BoxedLockCollection::try_new(mv)) {
						Some(c) => inners.push(Inner::Pois(Poisonable::new(c))),
						None => failed = true,
					}
				}
				_ => {}
			}
		}
		if failed {
			self.v(
				"C07",
				"false_duplicate",
				"inner try_new rejected a duplicate-free list".to_string(),
			);
			return None;
		}
		let mut outer: Vec<Member<'a, '_>> = Vec::new();
		let mut ii = 0;
		for m in members {
			match m {
				MemberSpec::Leaf(i) => outer.push(arena.leaf_member(*i)),
				MemberSpec::Unit(u) => outer.push(arena.unit_member(*u)),
				MemberSpec::Nested(..) | MemberSpec::PoisNested(..) => {
					outer.push(match &inners[ii] {
						Inner::Boxed(c) => Member::Boxed(c),
						Inner::Ref(c) => Member::Ref(c),
						Inner::Retry(c) => Member::Retry(c),
						Inner::Pois(c) => Member::PoisBoxed(c),
					});
					ii += 1;
				}
			}
		}
		Some(k(self, outer))
	}

	// ------------------------------------------------------------------ monitors

	fn check_holds_exactly(&self, exp: &[LockId], mode: Mode, when: &str, prop: &'static str) {
		let held = sorted(&self.w.held(self.tid));
		let want: Vec<(LockId, Mode)> =
			sorted(&exp.iter().map(|id| (*id, hold_mode(&self.w, *id, mode))).collect::<Vec<_>>());
		if held != want {
			self.v(
				prop,
				"holds_not_exact",
				format!("{when}: thread {} holds {:?}, expected {:?}", self.tid, held, want),
			);
		}
	}

	fn check_holds_nothing(&self, when: &str, prop: &'static str, rule: &'static str) {
		let held = self.w.held(self.tid);
		if !held.is_empty() {
			self.v(
				prop,
				rule,
				format!("{when}: thread {} still holds {:?}", self.tid, held),
			);
		}
	}

	fn check_try_ops(&self, ops: &[RawRec], label: &str) {
		if ops.iter().any(|o| o.op == Op::Lock) {
			self.v(
				"C04",
				"try_issued_blocking_op",
				format!("{label}: a try_* call issued a blocking raw lock operation"),
			);
		}
	}

	/// C09: a blocking op of a retrying acquisition that was not grantable at issue time while
	/// the caller held another lock of this acquisition
	fn check_retry_ops(&self, _ops: &[RawRec], _label: &str) {
		// decided inside the World at issue time (world.rs raw_op), so that an acquisition
		// that never returns (self-wait) is judged as well
	}

	/// the critical section: touch every payload in declared order
	fn section(&mut self, flat: &mut Flat<'_>, exp: &[LockId], acq: &Acq) {
		let w = self.w.clone();
		let tid = self.tid;
		self.stats.sections += 1;
		if flat.len() != exp.len() {
			self.v(
				"C04",
				"guard_arity",
				format!(
					"{}: guard exposes {} payloads, shape has {} leaves",
					acq_desc(acq),
					flat.len(),
					exp.len()
				),
			);
			return;
		}
		struct Exit<'w> {
			w: &'w World,
			tid: Tid,
			open: Vec<(LockId, Mode)>,
		}
		impl Drop for Exit<'_> {
			fn drop(&mut self) {
				for (l, m) in self.open.drain(..) {
					self.w.section_exit(self.tid, l, m);
				}
			}
		}
		let mut exit = Exit {
			w: &w,
			tid,
			open: Vec::new(),
		};
		for (i, (pay, _)) in flat.iter().enumerate() {
			let lock = exp[i];
			let m = match pay {
				Pay::Mut(_) => Mode::Excl,
				Pay::Ref(_) => Mode::Shared,
			};
			if (m == Mode::Excl) != (acq.mode == Mode::Excl) {
				self.v(
					"C02",
					"wrong_access_kind",
					format!("{}: position {i} gives {:?} access", acq_desc(acq), m),
				);
			}
			w.section_enter(tid, lock, m);
			exit.open.push((lock, m));
			let c = pay.get();
			if c.lock_id != lock {
				self.v(
					"C02",
					"misrouted",
					format!(
						"{}: position {i} should be lock {lock} but reaches the payload of lock {}",
						acq_desc(acq),
						c.lock_id
					),
				);
			} else {
				if !c.valid() {
					self.v("C02", "torn", format!("{}: lock {lock} payload torn", acq_desc(acq)));
				}
				let sh = w.shadow(lock);
				if c.version != sh {
					self.v(
						"C02",
						"stale_or_lost_update",
						format!(
							"{}: lock {lock} payload version {} but last exclusive section left {}",
							acq_desc(acq),
							c.version,
							sh
						),
					);
				}
			}
		}
		// C10: poison verdict of every Poisonable position against the PoisonModel
		for (i, (_, verdict)) in flat.iter().enumerate() {
			w.pois_check(exp[i], *verdict, &acq_desc(acq));
		}
		// a hold that lives entirely inside an unwind: its guard is dropped while the thread is
		// panicking, so the wrapper may (but need not) report poisoned from now on
		if acq.unwind {
			for id in exp {
				w.pois_may(*id);
			}
		}
		// While the hold is live the thread's key is inside the guard / lent to the call: asking
		// for a key - even repeatedly - must not yield one (C03: a thread that can acquire holds
		// nothing; C06).  A key obtained here is used at once on a held lock, which makes the
		// thread wait for itself (C01 witness).
		if !exp.is_empty() && (self.stats.sections + tid as u64) % 3 == 0 {
			for attempt in 1..=2 {
				// the second attempt asks from a destructor during an unrelated unwind
				let k2 = if attempt == 1 { ThreadKey::get() } else { in_unwind(ThreadKey::get) };
				if let Some(k2) = k2 {
					self.v(
						"C03",
						"key_obtainable_while_holding",
						format!("{}: ThreadKey::get() attempt {attempt} returned a key while the thread holds {:?}", acq_desc(acq), self.w.held(tid)),
					);
					self.v(
						"C06",
						"second_key_issued",
						format!("{}: ThreadKey::get() attempt {attempt} returned a key while the key is inside a live guard / running scoped call", acq_desc(acq)),
					);
					let arena = self.arena;
					let victim = arena
						.leaf_ids
						.iter()
						.position(|id| exp.contains(id) && acq.mode == Mode::Excl);
					match victim {
						Some(li) => {
							w.begin_call(tid, Class::Acquire, "second_key.lock", false);
							let lk: &dyn Lk = match &arena.leaves[li] {
								Leaf::M(l) => l,
								Leaf::R(l) => l,
								Leaf::PM(l) => l,
								Leaf::PR(l) => l,
							};
							let g2 = lk.lock(k2, Mode::Excl); // self-wait: the World aborts the episode
							w.end_call(tid);
							drop(g2);
						}
						None => drop(k2),
					}
					break;
				}
			}
		}
		// scheduling point inside the critical section
		w.yield_point(tid);
		for (i, (pay, _)) in flat.iter_mut().enumerate() {
			let lock = exp[i];
			let sh = w.shadow(lock);
			match pay {
				Pay::Mut(c) => {
					if c.lock_id == lock {
						if c.version != sh {
							self.w.violate(
								"C02",
								"changed_under_exclusive_section",
								format!("lock {lock}: version moved {} -> {} inside an exclusive section", sh, c.version),
							);
						}
						c.version = sh + 1;
						c.check = checksum(c.lock_id, c.version);
						w.bump_shadow(lock);
					}
				}
				Pay::Ref(c) => {
					if c.lock_id == lock && c.version != sh {
						self.w.violate(
							"C02",
							"changed_under_shared_section",
							format!("lock {lock}: version {} vs shadow {} inside a shared section", c.version, sh),
						);
					}
				}
			}
		}
		// C10: clear_poison while the hold is live
		if !self.clear_inside.is_empty() {
			let arena = self.arena;
			for li in std::mem::take(&mut self.clear_inside) {
				let id = arena.leaf_ids[li];
				if !exp.contains(&id) {
					continue;
				}
				match &arena.leaves[li] {
					Leaf::PM(l) => l.clear_poison(),
					Leaf::PR(l) => l.clear_poison(),
					_ => {}
				}
				w.pois_clear(id);
				if acq.unwind {
					w.pois_may(id);
				}
			}
		}
		if acq.panic {
			self.stats.panics_injected += 1;
			let route = Self::label(acq);
			for (i, (pay, _)) in flat.iter().enumerate() {
				w.pois_panic(exp[i], matches!(pay, Pay::Mut(_)), route);
			}
			drop(exit);
			resume_unwind(Box::new(InjectedPanic(tid)));
		}
		drop(exit);
	}

	pub fn label(acq: &Acq) -> &'static str {
		match (&acq.target, acq.api) {
			(Target::Leaf(_), Api::Guard | Api::GuardUnlock) => "leaf.lock",
			(Target::Leaf(_), Api::TryLoop) => "leaf.try_lock",
			(Target::Leaf(_), Api::Scoped) => "leaf.scoped",
			(Target::Leaf(_), Api::ScopedTry) => "leaf.scoped_try",
			(Target::Unit(_), Api::Guard | Api::GuardUnlock) => "unit.lock",
			(Target::Unit(_), Api::TryLoop) => "unit.try_lock",
			(Target::Unit(_), Api::Scoped) => "unit.scoped",
			(Target::Unit(_), Api::ScopedTry) => "unit.scoped_try",
			(_, Api::Guard | Api::GuardUnlock) => "coll.lock",
			(_, Api::TryLoop) => "coll.try_lock",
			(_, Api::Scoped) => "coll.scoped",
			(_, Api::ScopedTry) => "coll.scoped_try",
		}
	}

	pub fn do_acq(&mut self, lk: &dyn Lk, acq: &Acq, exp: &[LockId]) {
		let w = self.w.clone();
		let tid = self.tid;
		let label = Self::label(acq);
		let desc = || acq_desc(acq);
		// C03: a thread that can acquire holds nothing
		self.check_holds_nothing(
			&format!("before {}", desc()),
			"C03",
			"acquire_while_holding",
		);
		let Some(key) = self.take_key(label) else {
			return;
		};
		self.stats.acquisitions += 1;
		// now and then format the target while other threads may hold its locks (C17 under
		// concurrency; a Debug impl that disturbs holds also surfaces as C05 / C02 here)
		let fmt_now = (self.stats.acquisitions + self.tid as u64) % 5 == 0;
		if fmt_now {
			let _ = self.nonacq("debug(target) before acquiring", || lk.debug());
		}
		match acq.api {
			Api::Guard | Api::GuardUnlock => {
				w.begin_call(tid, Class::Acquire, label, lk.is_retry());
				let held = lk.lock(key, acq.mode);
				let ops = w.end_call(tid);
				// guard+unlock: if the critical section panics the hold is still ended through
				// the explicit unlock function, from a destructor during the unwind
				let mut end = EndHold { held: Some(held), explicit: acq.api == Api::GuardUnlock };
				let held = end.held.as_mut().unwrap();
				self.outcomes.push(true);
				self.last_ops = ops.clone();
				self.check_holds_exactly(exp, acq.mode, &format!("after {}", desc()), "C04");
				if lk.is_retry() {
					self.check_retry_ops(&ops, label);
				}
				if fmt_now {
					let _ = self.nonacq("debug(target) under own guard", || lk.debug());
					let _ = self.nonacq("debug(guard)", || held.debug());
				}
				self.guard_section_and_release(&mut Some(held.as_mut()), acq, exp);
				let held = end.held.take().unwrap();
				self.release(held, acq);
			}
			Api::TryLoop => {
				let mut key = key;
				let mut n = 0;
				loop {
					w.begin_call(tid, Class::TryAcquire, label, false);
					let r = lk.try_lock(key, acq.mode);
					let ops = w.end_call(tid);
					self.check_try_ops(&ops, label);
					match r {
						TryOut::Ok(mut held) => {
							self.outcomes.push(true);
							self.check_holds_exactly(
								exp,
								acq.mode,
								&format!("after Ok from {}", desc()),
								"C04",
							);
							self.guard_section_and_release(&mut Some(held.as_mut()), acq, exp);
							self.release(held, acq);
							break;
						}
						TryOut::WouldBlock(k) => {
							self.outcomes.push(false);
							self.stats.try_failures += 1;
							self.check_holds_nothing(
								&format!("after Err from {}", desc()),
								"C04",
								"failed_try_left_holds",
							);
							key = k;
							n += 1;
							if n >= self.try_max {
								self.stats.given_up += 1;
								self.key = Some(key);
								break;
							}
							w.yield_retry(tid);
						}
					}
				}
			}
			Api::Scoped => {
				let invocations = Cell::new(0u32);
				let this = RefCell::new(&mut *self);
				let body = |mut flat: Flat<'_>, _p: Option<bool>| {
					invocations.set(invocations.get() + 1);
					let mut tc = this.borrow_mut();
					tc.stats.closures += 1;
					tc.check_holds_exactly(exp, acq.mode, &format!("inside closure of {}", desc()), "C02");
					tc.section(&mut flat, exp, acq);
					tc.w.reclass(tc.tid, Class::Release);
				};
				let mut lent_key;
				w.begin_call(tid, Class::Acquire, label, lk.is_retry());
				if acq.lent {
					lent_key = key;
					lk.scoped(KeyArg::Lent(&mut lent_key), acq.mode, &body);
					let ops = w.end_call(tid);
					drop(this);
					self.last_ops = ops.clone();
					if lk.is_retry() {
						self.check_retry_ops(&ops, label);
					}
					self.key = Some(lent_key);
				} else {
					lk.scoped(KeyArg::Owned(key), acq.mode, &body);
					let ops = w.end_call(tid);
					drop(this);
					self.last_ops = ops.clone();
					if lk.is_retry() {
						self.check_retry_ops(&ops, label);
					}
				}
				self.outcomes.push(true);
				if invocations.get() != 1 {
					self.v(
						"C04",
						"closure_invocations",
						format!("{}: closure ran {} times after a successful acquisition", desc(), invocations.get()),
					);
				}
				self.check_holds_nothing(&format!("after {}", desc()), "C03", "key_back_while_holding");
			}
			Api::ScopedTry => {
				let mut n = 0;
				let mut owned = Some(key);
				loop {
					let invocations = Cell::new(0u32);
					let ok;
					{
						let this = RefCell::new(&mut *self);
						let body = |mut flat: Flat<'_>, _p: Option<bool>| {
							invocations.set(invocations.get() + 1);
							let mut tc = this.borrow_mut();
							tc.stats.closures += 1;
							tc.check_holds_exactly(
								exp,
								acq.mode,
								&format!("inside closure of {}", desc()),
								"C02",
							);
							tc.section(&mut flat, exp, acq);
							tc.w.reclass(tc.tid, Class::Release);
						};
						w.begin_call(tid, Class::TryAcquire, label, false);
						if acq.lent {
							let mut k = owned.take().unwrap();
							let r = lk.scoped_try(KeyArg::Lent(&mut k), acq.mode, &body);
							ok = r.is_ok();
							drop(r);
							owned = Some(k);
						} else {
							let k = owned.take().unwrap();
							match lk.scoped_try(KeyArg::Owned(k), acq.mode, &body) {
								Ok(()) => ok = true,
								Err(KeyArg::Owned(k)) => {
									ok = false;
									owned = Some(k);
								}
								Err(KeyArg::Lent(_)) => unreachable!(),
							}
						}
					}
					let ops = w.end_call(tid);
					// blocking ops are only forbidden before the closure ran (acquisition part)
					self.check_try_ops(&ops, label);
					self.outcomes.push(ok);
					let want = if ok { 1 } else { 0 };
					if invocations.get() != want {
						self.v(
							"C04",
							"closure_invocations",
							format!(
								"{}: closure ran {} times, acquisition {}",
								desc(),
								invocations.get(),
								if ok { "succeeded" } else { "failed" }
							),
						);
					}
					self.check_holds_nothing(
						&format!("after {} ({})", desc(), if ok { "Ok" } else { "Err" }),
						if ok { "C03" } else { "C04" },
						if ok { "key_back_while_holding" } else { "failed_try_left_holds" },
					);
					if ok {
						self.key = owned.take();
						break;
					}
					self.stats.try_failures += 1;
					if owned.is_none() {
						self.v(
							"C04",
							"key_not_returned",
							format!("{}: failed scoped_try did not hand the key back", desc()),
						);
						break;
					}
					n += 1;
					if n >= self.try_max {
						self.stats.given_up += 1;
						self.key = owned.take();
						break;
					}
					w.yield_retry(tid);
				}
			}
		}
	}

	fn guard_section_and_release(
		&mut self,
		held: &mut Option<&mut (dyn Held + '_)>,
		acq: &Acq,
		exp: &[LockId],
	) {
		let h = held.as_mut().unwrap();
		let mut flat = h.flat();
		self.section(&mut flat, exp, acq);
	}

	fn release(&mut self, held: Box<dyn Held + '_>, acq: &Acq) {
		let w = self.w.clone();
		let tid = self.tid;
		w.begin_call(tid, Class::Release, "release", false);
		let _probe = GuardReleaseScope::enter();
		if acq.api == Api::GuardUnlock {
			let k = held.unlock();
			w.end_call(tid);
			self.key = Some(k);
		} else {
			drop(held);
			w.end_call(tid);
			self.key = None;
		}
		self.check_holds_nothing(
			&format!("after release of {}", acq_desc(acq)),
			"C03",
			"key_back_while_holding",
		);
	}
}

/// run `f`, classify an unwind
pub enum Unwound {
	Abort,
	InjectedPanic,
	InjectedFault,
	Other(String),
}

pub fn classify(e: Box<dyn std::any::Any + Send>) -> Unwound {
	if e.is::<EpisodeAbort>() {
		Unwound::Abort
	} else if e.is::<InjectedPanic>() {
		Unwound::InjectedPanic
	} else if e.is::<InjectedFault>() {
		Unwound::InjectedFault
	} else if let Some(s) = e.downcast_ref::<&str>() {
		Unwound::Other((*s).to_string())
	} else if let Some(s) = e.downcast_ref::<String>() {
		Unwound::Other(s.clone())
	} else {
		Unwound::Other("<non-string panic payload>".into())
	}
}

/// Payload of the unrelated panic `in_unwind` unwinds with.
struct UnwindCarrier;

/// Run `f` inside a destructor that is executed because the thread is unwinding from an
/// unrelated panic: `std::thread::panicking()` is true for the whole of `f`.  A panic raised by
/// `f` itself is contained in the destructor (anything else would abort the process) and
/// re-raised once the carrier panic has been caught.
pub fn in_unwind<T>(f: impl FnOnce() -> T) -> T {
	struct Runner<'o, F: FnOnce() -> T, T> {
		f: Option<F>,
		out: &'o mut Option<std::thread::Result<T>>,
	}
	impl<F: FnOnce() -> T, T> Drop for Runner<'_, F, T> {
		fn drop(&mut self) {
			assert!(std::thread::panicking());
			let f = self.f.take().unwrap();
			*self.out = Some(catch_unwind(AssertUnwindSafe(f)));
		}
	}
	let mut out = None;
	let carrier = catch_unwind(AssertUnwindSafe(|| {
		let _runner = Runner { f: Some(f), out: &mut out };
		resume_unwind(Box::new(UnwindCarrier));
	}));
	assert!(matches!(&carrier, Err(e) if e.is::<UnwindCarrier>()));
	match out.expect("the destructor ran") {
		Ok(t) => t,
		Err(e) => resume_unwind(e),
	}
}

/// While alive, the audit raw locks probe `ThreadKey::get()` inside every raw unlock (C03).
pub struct GuardReleaseScope(bool);
impl GuardReleaseScope {
	pub fn enter() -> Self {
		GuardReleaseScope(crate::audit::GUARD_RELEASE.with(|g| g.replace(true)))
	}
}
impl Drop for GuardReleaseScope {
	fn drop(&mut self) {
		crate::audit::GUARD_RELEASE.with(|g| g.set(self.0));
	}
}

/// A guard that is handed back through the explicit `Type::unlock(guard)` function even when the
/// critical section unwinds: the destructor of an application object that owns the guard.
struct EndHold<'h> {
	held: Option<Box<dyn Held + 'h>>,
	explicit: bool,
}
impl Drop for EndHold<'_> {
	fn drop(&mut self) {
		if let Some(h) = self.held.take() {
			let _probe = GuardReleaseScope::enter();
			if self.explicit {
				drop(h.unlock());
			} else {
				drop(h);
			}
		}
	}
}

pub fn guarded<T>(f: impl FnOnce() -> T) -> Result<T, Unwound> {
	catch_unwind(AssertUnwindSafe(f)).map_err(classify)
}
