//! The World: the state of every audit lock of one episode, the (optional) serialising
//! scheduler, the event log and the violation list.  The lock state *is* the monitor state:
//! both live behind one std mutex and are updated together.
//!
//! Two execution modes:
//!  * `Solo`   – one real thread; other holders are *phantoms* (owner ids >= PHANTOM) placed
//!               by the harness.  A blocking request that cannot be granted is either served by
//!               an auto-releasing phantom or is a deadlock/self-wait verdict.
//!  * `Baton`  – several real OS threads, only the baton holder runs; every raw lock operation
//!               and every explicit yield is a scheduling point; the next thread is chosen by a
//!               seeded strategy.  "No eligible thread while some are unfinished" = deadlock.

use std::cell::RefCell;
use std::panic::resume_unwind;
use std::sync::{Arc, Condvar, Mutex as StdMutex, MutexGuard};

use crate::rng::Rng;

pub type Tid = u32;
pub type LockId = u32;
pub const PHANTOM: Tid = 2000;

#[derive(Clone, Copy, PartialEq, Eq, Debug, Hash, PartialOrd, Ord)]
pub enum Mode {
	Shared,
	Excl,
}
impl Mode {
	pub fn ch(self) -> char {
		match self {
			Mode::Shared => 'r',
			Mode::Excl => 'w',
		}
	}
}

#[derive(Clone, Copy, PartialEq, Eq, Debug, Hash)]
pub enum Op {
	Lock,
	Try,
	Unlock,
}

#[derive(Clone, Copy, PartialEq, Eq, Debug)]
pub enum Policy {
	ReaderPref,
	WriterPref,
}

#[derive(Clone, Copy, PartialEq, Eq, Debug)]
pub enum Strategy {
	Random,
	/// priority based; `u32` = number of priority change points
	Pct(u32),
	RunToBlock,
}

#[derive(Clone, Copy, PartialEq, Eq, Debug)]
pub enum ExecMode {
	Solo,
	Baton,
}

#[derive(Clone, Copy, PartialEq, Eq, Debug)]
pub enum Class {
	/// blocking acquisition API (lock/read/write/scoped_*)
	Acquire,
	/// try_* / scoped_try_*
	TryAcquire,
	/// guard drop / unlock
	Release,
	/// non acquiring API (constructors, accessors, is_poisoned...)
	NonAcq,
	/// Debug formatting
	Format,
	/// harness-internal (setup, probes)
	Harness,
}

#[derive(Clone, Copy, Debug)]
pub struct CallCtx {
	pub id: u32,
	pub class: Class,
	pub label: &'static str,
	/// RetryingLockCollection acquisition (C09 monitor)
	pub retry: bool,
}

#[derive(Clone, Copy, Debug)]
pub struct RawRec {
	pub lock: LockId,
	pub op: Op,
	pub mode: Mode,
	pub ok: bool,
	pub grantable_at_issue: bool,
	pub held_before: u16,
	/// locks held that belong to another group (an owned unit is one group)
	pub held_other_groups: u16,
	pub blocked: bool,
	pub panicked: bool,
}

#[derive(Clone, Copy, PartialEq, Eq, Debug)]
pub enum Cond {
	Flag(u32),
	/// thread is blocked on a lock, or finished
	ThreadBlockedOrDone(Tid),
}

#[derive(Clone, Copy, PartialEq, Eq, Debug)]
pub enum Status {
	NotStarted,
	Runnable,
	Blocked(LockId, Mode),
	Waiting(Cond),
	Finished,
}

#[derive(Clone, Copy, PartialEq, Eq, Debug)]
pub enum Phase {
	Before,
	After,
	/// the phase in which the audit table afterwards agrees with what the library must assume:
	/// a panicking lock/try took no effect (Before), a panicking unlock did release (After)
	Clean,
}

#[derive(Clone, Copy, Debug)]
pub struct FaultSpec {
	pub tid: Tid,
	/// ordinal of the API call on that thread (u32::MAX = any call)
	pub call: u32,
	/// ordinal of the raw op within that call
	pub op_index: u32,
	pub phase: Phase,
	pub fired: bool,
	/// if set: ordinal of the raw op on that thread since the end of setup (ignores call/op_index)
	pub global_index: Option<u32>,
}

#[derive(Default, Clone, Debug)]
pub struct PoisModel {
	pub enabled: bool,
	/// lock id -> route of the panicking exclusive hold that makes poisoning mandatory
	pub must: std::collections::HashMap<LockId, String>,
	/// lock ids that may be poisoned (any panic during any hold since the last clear)
	pub may: std::collections::HashSet<LockId>,
	/// ids of Poisonable leaves
	pub tracked: std::collections::HashSet<LockId>,
	pub checks: u64,
	pub poisoned_seen: u64,
}

#[derive(Clone, Debug)]
pub struct FaultInfo {
	pub lock: LockId,
	pub op: Op,
	pub mode: Mode,
	pub phase: Phase,
	pub held: Vec<(LockId, Mode)>,
	pub call_label: &'static str,
	pub lock_held_by_other: bool,
}

pub const PF_LOCK: u8 = 1;
pub const PF_TRY: u8 = 2;
pub const PF_UNLOCK: u8 = 4;

#[derive(Clone, Debug, Default)]
pub struct LockSt {
	pub is_rw: bool,
	pub excl: Option<Tid>,
	pub shared: Vec<Tid>,
	pub waiters: Vec<(Tid, Mode)>,
	pub persistent_fault: u8,
	pub auto_release: bool,
	pub n_acq: u32,
	pub n_rel: u32,
	/// a raw op of this lock has panicked (injected); its state is uncertain
	pub faulted: bool,
	/// releases of this lock audited as bad
	pub bad_releases: u32,
}

impl LockSt {
	pub fn is_free(&self) -> bool {
		self.excl.is_none() && self.shared.is_empty()
	}
	pub fn held_by(&self, t: Tid) -> Option<Mode> {
		if self.excl == Some(t) {
			Some(Mode::Excl)
		} else if self.shared.contains(&t) {
			Some(Mode::Shared)
		} else {
			None
		}
	}
}

#[derive(Clone, Debug)]
pub struct ThreadSt {
	pub status: Status,
	pub call: Option<CallCtx>,
	pub calls: u32,
	pub ops: Vec<RawRec>,
	pub prio: u32,
	/// raw ops issued by this thread since the end of setup
	pub raw_seq: u32,
	/// releases by this thread that the audit rejected (not held / wrong mode)
	pub bad_releases: u32,
}

#[derive(Clone, Debug)]
pub struct Violation {
	pub prop: &'static str,
	pub rule: &'static str,
	pub detail: String,
}

/// compact event for the witness log
#[derive(Clone, Copy, Debug)]
pub struct Ev {
	pub tid: Tid,
	pub kind: EvKind,
	pub lock: LockId,
	pub a: u32,
}

#[derive(Clone, Copy, Debug, PartialEq, Eq)]
pub enum EvKind {
	CallBegin,
	CallEnd,
	LockOk,
	LockBlocked,
	TryOk,
	TryFail,
	Unlock,
	BadUnlock,
	Fault,
	SectionEnter,
	SectionExit,
	Switch,
	Note,
	Finish,
}

#[derive(Clone, Debug, Default)]
pub struct Stats {
	pub raw_ops: u64,
	pub blocked_acquires: u64,
	pub failed_tries: u64,
	pub switches: u64,
	pub shared_overlaps: u64,
	pub faults_fired: u64,
	pub sections: u64,
	pub phantom_autorelease: u64,
	pub steps: u64,
}

#[derive(Clone, Debug, PartialEq, Eq)]
pub enum Abort {
	Deadlock,
	SelfWait,
	Budget,
	Harness(String),
}

/// typed panic payloads
pub struct EpisodeAbort;
pub struct InjectedFault;
#[derive(Debug)]
pub struct InjectedPanic(pub u32);

pub struct Inner {
	pub exec: ExecMode,
	pub policy: Policy,
	pub strategy: Strategy,
	pub setup: bool,
	pub locks: Vec<LockSt>, // index = id (0 unused)
	pub threads: Vec<ThreadSt>,
	pub running: Tid,
	pub rng: Rng,
	pub budget1: u64,
	pub budget2: u64,
	pub fair_phase: bool,
	pub aborted: Option<Abort>,
	pub done: bool,
	pub started: u32,
	pub log: Vec<Ev>,
	pub keep_log: bool,
	pub violations: Vec<Violation>,
	pub stats: Stats,
	pub trace_hash: u64,
	pub faults: Vec<FaultSpec>,
	pub flags: Vec<u32>,
	// section monitor
	pub sections: Vec<Vec<(Tid, Mode)>>,
	pub shadow: Vec<u64>,
	pub writes_done: Vec<u64>,
	pub call_counter: u32,
	/// lock id -> group (owned units are one indivisible group; default = own id)
	pub group: Vec<u32>,
	/// what the faulting thread held when the (first) fault fired, and on which lock/op
	pub fault_info: Option<FaultInfo>,
	/// C10 PoisonModel (shared by all threads of the episode)
	pub pois: PoisModel,
	pub pct_points: Vec<u64>,
	pub deadlock_witness: String,
	/// Solo + writer-preferring policy: as soon as the solo thread is granted shared access to
	/// a rwlock, a phantom WRITER queues behind it (and leaves when the lock becomes free) -
	/// the state in which parking_lot reports is_locked_exclusive() and refuses new readers
	pub writer_queues: bool,
}

pub struct World {
	pub inner: StdMutex<Inner>,
	pub cv: Condvar,
}

thread_local! {
	static CUR: RefCell<Option<(Arc<World>, Tid)>> = const { RefCell::new(None) };
	static REG_TAG: RefCell<Option<LockId>> = const { RefCell::new(None) };
}

pub fn set_current(w: Option<(Arc<World>, Tid)>) {
	CUR.with(|c| *c.borrow_mut() = w);
}
pub fn current() -> Option<(Arc<World>, Tid)> {
	CUR.with(|c| c.borrow().clone())
}
pub fn cur() -> (Arc<World>, Tid) {
	current().expect("audit lock used outside a World")
}
pub fn set_reg_tag(t: Option<LockId>) {
	REG_TAG.with(|c| *c.borrow_mut() = t);
}
pub fn take_reg_tag() -> Option<LockId> {
	REG_TAG.with(|c| c.borrow_mut().take())
}

fn mix(h: u64, v: u64) -> u64 {
	let mut x = h ^ v.wrapping_mul(0x9E37_79B9_7F4A_7C15);
	x ^= x >> 29;
	x = x.wrapping_mul(0xBF58_476D_1CE4_E5B9);
	x ^ (x >> 32)
}

pub struct WorldCfg {
	pub exec: ExecMode,
	pub policy: Policy,
	pub strategy: Strategy,
	pub nthreads: u32,
	pub seed: u64,
	pub budget1: u64,
	pub budget2: u64,
	pub keep_log: bool,
}

impl World {
	pub fn new(cfg: WorldCfg) -> Arc<World> {
		let mut rng = Rng::new(cfg.seed ^ 0xA5A5_5A5A_1234_5678);
		let mut threads = Vec::new();
		for _ in 0..cfg.nthreads.max(1) {
			threads.push(ThreadSt {
				status: if cfg.exec == ExecMode::Solo {
					Status::Runnable
				} else {
					Status::NotStarted
				},
				call: None,
				calls: 0,
				ops: Vec::new(),
				prio: rng.next_u32(),
				raw_seq: 0,
				bad_releases: 0,
			});
		}
		let mut pct_points = Vec::new();
		if let Strategy::Pct(d) = cfg.strategy {
			for _ in 0..d {
				pct_points.push(rng.below(200) as u64);
			}
		}
		Arc::new(World {
			inner: StdMutex::new(Inner {
				exec: cfg.exec,
				policy: cfg.policy,
				strategy: cfg.strategy,
				setup: true,
				locks: vec![LockSt::default()],
				threads,
				running: 0,
				rng,
				budget1: cfg.budget1,
				budget2: cfg.budget2,
				fair_phase: false,
				aborted: None,
				done: false,
				started: 0,
				log: Vec::new(),
				keep_log: cfg.keep_log,
				violations: Vec::new(),
				stats: Stats::default(),
				trace_hash: 0,
				faults: Vec::new(),
				flags: Vec::new(),
				sections: vec![Vec::new()],
				shadow: vec![0],
				writes_done: vec![0],
				call_counter: 0,
				group: vec![0],
				fault_info: None,
				writer_queues: false,
				pois: PoisModel::default(),
				pct_points,
				deadlock_witness: String::new(),
			}),
			cv: Condvar::new(),
		})
	}

	pub fn g(&self) -> MutexGuard<'_, Inner> {
		match self.inner.lock() {
			Ok(g) => g,
			Err(p) => p.into_inner(),
		}
	}

	pub fn add_lock(&self, is_rw: bool) -> LockId {
		let mut g = self.g();
		g.locks.push(LockSt {
			is_rw,
			..LockSt::default()
		});
		g.sections.push(Vec::new());
		g.shadow.push(0);
		g.writes_done.push(0);
		let id = (g.locks.len() - 1) as LockId;
		g.group.push(id);
		id
	}

	pub fn set_group(&self, lock: LockId, group: u32) {
		self.g().group[lock as usize] = group;
	}

	pub fn end_setup(&self) {
		self.g().setup = false;
	}
	pub fn begin_setup(&self) {
		self.g().setup = true;
	}

	// ------------------------------------------------------------------ queries

	pub fn held(&self, tid: Tid) -> Vec<(LockId, Mode)> {
		let g = self.g();
		held_of(&g, tid)
	}

	/// (excl owner, sorted shared owners) per lock
	pub fn snapshot(&self) -> Vec<(Option<Tid>, Vec<Tid>)> {
		let g = self.g();
		g.locks
			.iter()
			.map(|l| {
				let mut s = l.shared.clone();
				s.sort_unstable();
				(l.excl, s)
			})
			.collect()
	}

	pub fn violate(&self, prop: &'static str, rule: &'static str, detail: String) {
		let mut g = self.g();
		push_violation(&mut g, prop, rule, detail);
	}

	pub fn note(&self, tid: Tid, a: u32) {
		let mut g = self.g();
		log(&mut g, tid, EvKind::Note, 0, a);
	}

	pub fn aborted(&self) -> bool {
		self.g().aborted.is_some()
	}

	// ------------------------------------------------------------------ phantoms

	pub fn phantom_hold(&self, lock: LockId, mode: Mode, k: u32, auto_release: bool) {
		let mut g = self.g();
		let l = &mut g.locks[lock as usize];
		match mode {
			Mode::Excl => {
				assert!(l.is_free(), "phantom excl on held lock");
				l.excl = Some(PHANTOM + k);
			}
			Mode::Shared => {
				assert!(l.excl.is_none());
				l.shared.push(PHANTOM + k);
			}
		}
		l.auto_release = auto_release;
	}

	pub fn phantom_release_all(&self) {
		let mut g = self.g();
		for l in g.locks.iter_mut() {
			if matches!(l.excl, Some(t) if t >= PHANTOM) {
				l.excl = None;
			}
			l.shared.retain(|t| *t < PHANTOM);
		}
	}

	/// harness: clear the audit state of a lock (so that only happylock's own flags can refuse it)
	pub fn force_free(&self, lock: LockId) {
		let mut g = self.g();
		let l = &mut g.locks[lock as usize];
		l.excl = None;
		l.shared.clear();
	}

	/// drop every hold of `tid` from the owner table (after a leak has been reported)
	pub fn forget_holds_of(&self, tid: Tid) {
		let mut g = self.g();
		for l in g.locks.iter_mut() {
			if l.excl == Some(tid) {
				l.excl = None;
			}
			l.shared.retain(|t| *t != tid);
		}
	}

	pub fn set_writer_queues(&self, on: bool) {
		self.g().writer_queues = on;
	}

	pub fn bad_releases_of(&self, tid: Tid) -> u32 {
		self.g().threads[tid as usize].bad_releases
	}

	pub fn raw_seq(&self, tid: Tid) -> u32 {
		self.g().threads[tid as usize].raw_seq
	}

	pub fn set_persistent_fault(&self, lock: LockId, mask: u8) {
		self.g().locks[lock as usize].persistent_fault = mask;
	}

	pub fn add_fault(&self, f: FaultSpec) {
		self.g().faults.push(f);
	}

	// ------------------------------------------------------------------ API call context

	pub fn begin_call(&self, tid: Tid, class: Class, label: &'static str, retry: bool) -> u32 {
		let mut g = self.g();
		g.call_counter += 1;
		let id = g.call_counter;
		let t = &mut g.threads[tid as usize];
		t.call = Some(CallCtx {
			id,
			class,
			label,
			retry,
		});
		t.ops.clear();
		log(&mut g, tid, EvKind::CallBegin, 0, id);
		id
	}

	pub fn end_call(&self, tid: Tid) -> Vec<RawRec> {
		let mut g = self.g();
		let t = &mut g.threads[tid as usize];
		t.call = None;
		t.calls += 1;
		let ops = std::mem::take(&mut t.ops);
		log(&mut g, tid, EvKind::CallEnd, 0, ops.len() as u32);
		ops
	}

	/// change the class of the running call (e.g. Acquire -> Release when a scoped call's
	/// closure has returned); ops keep accumulating
	pub fn reclass(&self, tid: Tid, class: Class) {
		let mut g = self.g();
		if let Some(c) = g.threads[tid as usize].call.as_mut() {
			c.class = class;
		}
	}

	pub fn ops_so_far(&self, tid: Tid) -> Vec<RawRec> {
		self.g().threads[tid as usize].ops.clone()
	}

	// ------------------------------------------------------------------ raw lock operations

	/// Entry point of every audit raw lock op.  Returns the try result (true for lock/unlock).
	pub fn raw_op(self: &Arc<Self>, tid: Tid, lock: LockId, op: Op, mode: Mode) -> bool {
		let mut g = self.g();
		if g.setup {
			// harness-internal registration try-ops: take effect silently
			return match op {
				Op::Lock | Op::Try => {
					grant(&mut g, tid, lock, mode);
					true
				}
				Op::Unlock => {
					release(&mut g, tid, lock, mode);
					true
				}
			};
		}
		if g.aborted.is_some() {
			drop(g);
			return match op {
				Op::Lock => bail(),
				Op::Try => false,
				Op::Unlock => true,
			};
		}
		g.stats.raw_ops += 1;
		if g.exec == ExecMode::Solo && g.stats.raw_ops > SOLO_RAW_OP_BUDGET && g.aborted.is_none() {
			// a single thread that keeps issuing raw operations without ever finishing: livelock
			let d = format!("the single thread of a solo episode issued more than {SOLO_RAW_OP_BUDGET} raw lock operations without finishing (livelock)");
			push_violation(&mut g, "C01", "no_progress_single_thread", d);
			g.aborted = Some(Abort::Budget);
		}
		let op_index = g.threads[tid as usize].ops.len() as u32;
		let call_ord = g.threads[tid as usize].calls;
		let raw_seq = g.threads[tid as usize].raw_seq;
		g.threads[tid as usize].raw_seq += 1;
		let held_now = held_of(&g, tid);
		let held_before = held_now.len() as u16;
		let my_group = g.group[lock as usize];
		let held_other_groups = held_now
			.iter()
			.filter(|(l, _)| g.group[*l as usize] != my_group)
			.count() as u16;
		let grantable_now = match op {
			Op::Unlock => true,
			_ => grantable(&g, tid, lock, mode),
		};
		g.threads[tid as usize].ops.push(RawRec {
			lock,
			op,
			mode,
			ok: false,
			grantable_at_issue: grantable_now,
			held_before,
			held_other_groups,
			blocked: false,
			panicked: false,
		});
		// C04, decided at issue time: a try_* call must never issue a blocking raw operation
		if op == Op::Lock {
			if let Some(c) = g.threads[tid as usize].call {
				if c.class == Class::TryAcquire {
					let d = format!("{}: a try_* call issued a blocking request for lock {lock} ({})", c.label, mode.ch());
					push_violation(&mut g, "C04", "try_issued_blocking_op", d);
				}
			}
		}
		// C09, decided at issue time: a blocking request inside a retrying-collection acquisition
		// that cannot be granted now while the caller holds a lock of another group
		if op == Op::Lock && !grantable_now && held_other_groups > 0 {
			if let Some(c) = g.threads[tid as usize].call {
				if c.retry {
					let d = format!(
						"{}: blocking request for lock {lock} is not grantable while the thread holds {:?} (locks outside that lock's owned unit: {held_other_groups})",
						c.label, held_now
					);
					push_violation(&mut g, "C09", "wait_while_holding", d);
				}
			}
		}
		g.trace_hash = mix(
			g.trace_hash,
			((tid as u64) << 40) | ((lock as u64) << 8) | ((op as u64) << 1) | (mode as u64),
		);

		// ---- fault plan
		let pf = g.locks[lock as usize].persistent_fault;
		let pbit = match op {
			Op::Lock => PF_LOCK,
			Op::Try => PF_TRY,
			Op::Unlock => PF_UNLOCK,
		};
		let mut fault_phase: Option<Phase> = None;
		if pf & pbit != 0 {
			fault_phase = Some(Phase::Before);
		} else {
			for f in g.faults.iter_mut() {
				let hit = match f.global_index {
					Some(gi) => gi == raw_seq,
					None => (f.call == u32::MAX || f.call == call_ord) && f.op_index == op_index,
				};
				if !f.fired && f.tid == tid && hit {
					f.fired = true;
					fault_phase = Some(match (f.phase, op) {
						(Phase::Clean, Op::Unlock) => Phase::After,
						(Phase::Clean, _) => Phase::Before,
						(p, _) => p,
					});
					break;
				}
			}
		}
		if fault_phase.is_some() && std::thread::panicking() && g.locks[lock as usize].persistent_fault & pbit == 0 {
			// a second panic inside a destructor that runs during an unwind cannot be survived
			// by any Rust program: one-shot faults are not injected there (the plan entry stays
			// consumed)
			fault_phase = None;
		}
		if let Some(ph) = fault_phase {
			if g.fault_info.is_none() {
				let l = &g.locks[lock as usize];
				let other = l.excl.map_or(false, |t| t != tid) || l.shared.iter().any(|t| *t != tid);
				g.fault_info = Some(FaultInfo {
					lock,
					op,
					mode,
					phase: ph,
					held: held_now.clone(),
					call_label: g.threads[tid as usize].call.map(|c| c.label).unwrap_or("-"),
					lock_held_by_other: other,
				});
			}
		}
		if fault_phase == Some(Phase::Before) {
			g.stats.faults_fired += 1;
			g.locks[lock as usize].faulted = true;
			let t = &mut g.threads[tid as usize];
			t.ops.last_mut().unwrap().panicked = true;
			log(&mut g, tid, EvKind::Fault, lock, 0);
			drop(g);
			resume_unwind(Box::new(InjectedFault));
		}

		// ---- scheduling point before the operation takes effect
		if g.exec == ExecMode::Baton {
			g = self.sched_point(tid, g);
		}

		let res = match op {
			Op::Unlock => {
				release(&mut g, tid, lock, mode);
				// a second scheduling point right after the release took effect: whatever the
				// caller still does after unlocking (flag stores...) can be overtaken
				if g.exec == ExecMode::Baton && !std::thread::panicking() {
					g = self.sched_point(tid, g);
				}
				true
			}
			Op::Try => {
				if grantable(&g, tid, lock, mode) {
					grant(&mut g, tid, lock, mode);
					queue_phantom_writer(&mut g, tid, lock, mode);
					log(&mut g, tid, EvKind::TryOk, lock, mode as u32);
					true
				} else {
					g.stats.failed_tries += 1;
					log(&mut g, tid, EvKind::TryFail, lock, mode as u32);
					false
				}
			}
			Op::Lock => {
				g = self.blocking_acquire(tid, lock, mode, g);
				queue_phantom_writer(&mut g, tid, lock, mode);
				true
			}
		};
		if let Some(r) = g.threads[tid as usize].ops.last_mut() {
			r.ok = res;
		}
		g.trace_hash = mix(g.trace_hash, res as u64 + 7);

		if fault_phase == Some(Phase::After) {
			g.stats.faults_fired += 1;
			g.locks[lock as usize].faulted = true;
			g.threads[tid as usize].ops.last_mut().unwrap().panicked = true;
			log(&mut g, tid, EvKind::Fault, lock, 1);
			drop(g);
			resume_unwind(Box::new(InjectedFault));
		}
		res
	}

	fn blocking_acquire<'a>(
		self: &'a Arc<Self>,
		tid: Tid,
		lock: LockId,
		mode: Mode,
		mut g: MutexGuard<'a, Inner>,
	) -> MutexGuard<'a, Inner> {
		let mut first = true;
		loop {
			if g.aborted.is_some() {
				drop(g);
				bail();
			}
			if grantable(&g, tid, lock, mode) {
				grant(&mut g, tid, lock, mode);
				log(&mut g, tid, EvKind::LockOk, lock, mode as u32);
				return g;
			}
			if first {
				first = false;
				g.stats.blocked_acquires += 1;
				if let Some(r) = g.threads[tid as usize].ops.last_mut() {
					r.blocked = true;
				}
				log(&mut g, tid, EvKind::LockBlocked, lock, mode as u32);
			}
			// self wait?
			if g.locks[lock as usize].held_by(tid).is_some() {
				let d = format!(
					"thread {tid} requests lock {lock} ({}) while holding it itself ({:?})",
					mode.ch(),
					g.locks[lock as usize].held_by(tid)
				);
				push_violation(&mut g, "C01", "self_wait", d);
				g.aborted = Some(Abort::SelfWait);
				self.cv.notify_all();
				drop(g);
				bail();
			}
			match g.exec {
				ExecMode::Solo => {
					// auto releasing phantom?
					let l = &mut g.locks[lock as usize];
					let only_phantoms = l.excl.map_or(true, |t| t >= PHANTOM)
						&& l.shared.iter().all(|t| *t >= PHANTOM);
					let had_something = l.excl.is_some() || !l.shared.is_empty() || l.waiters.iter().any(|(t, _)| *t >= PHANTOM);
					if l.auto_release && only_phantoms && had_something {
						// the phantom holders - and any phantom writer queued behind them - let go
						l.excl = None;
						l.shared.clear();
						l.waiters.retain(|(t, _)| *t < PHANTOM);
						g.stats.phantom_autorelease += 1;
						continue;
					}
					let d = format!(
						"solo thread blocks on lock {lock} ({}) held by {:?}/{:?}",
						mode.ch(),
						l.excl,
						l.shared
					);
					g.deadlock_witness = d;
					g.aborted = Some(Abort::Deadlock);
					drop(g);
					bail();
				}
				ExecMode::Baton => {
					g.threads[tid as usize].status = Status::Blocked(lock, mode);
					g.locks[lock as usize].waiters.push((tid, mode));
					g = self.hand_over(tid, g);
					// we are running again (or aborted)
					let l = &mut g.locks[lock as usize];
					if let Some(p) = l.waiters.iter().position(|w| *w == (tid, mode)) {
						l.waiters.remove(p);
					}
					g.threads[tid as usize].status = Status::Runnable;
				}
			}
		}
	}

	/// Scheduling point for a runnable thread: maybe switch to another thread.
	fn sched_point<'a>(
		self: &'a Arc<Self>,
		tid: Tid,
		mut g: MutexGuard<'a, Inner>,
	) -> MutexGuard<'a, Inner> {
		if g.aborted.is_some() {
			return g;
		}
		g.stats.steps += 1;
		self.check_budget(&mut g);
		if g.aborted.is_some() {
			return g;
		}
		let next = pick_next(&mut g, Some(tid), false);
		match next {
			Some(n) if n == tid => g,
			Some(n) => {
				g.running = n;
				g.stats.switches += 1;
				g.trace_hash = mix(g.trace_hash, 1000 + n as u64);
				log(&mut g, tid, EvKind::Switch, 0, n);
				self.cv.notify_all();
				self.wait_turn(tid, g)
			}
			None => g,
		}
	}

	fn check_budget(&self, g: &mut Inner) {
		let steps = g.stats.steps;
		if !g.fair_phase && steps > g.budget1 {
			g.fair_phase = true;
			g.strategy = Strategy::RunToBlock;
		}
		if g.fair_phase && steps > g.budget1 + g.budget2 {
			g.aborted = Some(Abort::Budget);
			self.cv.notify_all();
		}
	}

	/// The running thread cannot continue (blocked / waiting / finished): give the baton away.
	fn hand_over<'a>(
		self: &'a Arc<Self>,
		tid: Tid,
		mut g: MutexGuard<'a, Inner>,
	) -> MutexGuard<'a, Inner> {
		g.stats.steps += 1;
		self.check_budget(&mut g);
		if g.aborted.is_some() {
			return g;
		}
		let next = pick_next(&mut g, None, true);
		match next {
			Some(n) if n == tid => g, // our own request became eligible (e.g. cond true)
			Some(n) => {
				g.running = n;
				g.stats.switches += 1;
				g.trace_hash = mix(g.trace_hash, 1000 + n as u64);
				log(&mut g, tid, EvKind::Switch, 0, n);
				self.cv.notify_all();
				if g.threads[tid as usize].status == Status::Finished {
					return g;
				}
				self.wait_turn(tid, g)
			}
			None => {
				let unfinished: Vec<String> = g
					.threads
					.iter()
					.enumerate()
					.filter(|(_, t)| t.status != Status::Finished)
					.map(|(i, t)| format!("t{i}:{:?}", t.status))
					.collect();
				if unfinished.is_empty() {
					g.done = true;
					self.cv.notify_all();
					g
				} else {
					// deadlock: every unfinished thread waits, none is grantable
					let mut w = format!("wait-for: {}", unfinished.join(" "));
					for (i, l) in g.locks.iter().enumerate() {
						if !l.is_free() {
							w.push_str(&format!(" | lock{i} excl={:?} shared={:?}", l.excl, l.shared));
						}
					}
					let only_conds = g.threads.iter().all(|t| {
						!matches!(t.status, Status::Blocked(..))
					});
					g.deadlock_witness = w.clone();
					if only_conds {
						g.aborted = Some(Abort::Harness(format!("all waiting on harness conditions: {w}")));
					} else {
						push_violation(&mut g, "C01", "deadlock", w);
						g.aborted = Some(Abort::Deadlock);
					}
					self.cv.notify_all();
					g
				}
			}
		}
	}

	fn wait_turn<'a>(&'a self, tid: Tid, mut g: MutexGuard<'a, Inner>) -> MutexGuard<'a, Inner> {
		loop {
			if g.aborted.is_some() || g.running == tid {
				return g;
			}
			g = match self.cv.wait(g) {
				Ok(g) => g,
				Err(p) => p.into_inner(),
			};
		}
	}

	// ------------------------------------------------------------------ thread lifecycle (Baton)

	pub fn thread_start(self: &Arc<Self>, tid: Tid) {
		let mut g = self.g();
		g.threads[tid as usize].status = Status::Runnable;
		g.started += 1;
		self.cv.notify_all();
		// wait until scheduled; `running` is set by the controller through `kickoff`
		loop {
			if g.aborted.is_some() {
				drop(g);
				bail();
			}
			if g.started == u32::MAX && g.running == tid {
				return;
			}
			g = match self.cv.wait(g) {
				Ok(g) => g,
				Err(p) => p.into_inner(),
			};
		}
	}

	/// Controller: wait for all threads to be at their start line, then choose the first.
	pub fn kickoff(self: &Arc<Self>, n: u32) {
		let mut g = self.g();
		while g.started < n {
			g = match self.cv.wait(g) {
				Ok(g) => g,
				Err(p) => p.into_inner(),
			};
		}
		g.started = u32::MAX;
		g.setup = false;
		let first = pick_next(&mut g, None, true).unwrap_or(0);
		g.running = first;
		self.cv.notify_all();
	}

	/// Controller: wait until the episode is complete or aborted.
	pub fn wait_done(self: &Arc<Self>) {
		let mut g = self.g();
		while !g.done && g.aborted.is_none() {
			g = match self.cv.wait(g) {
				Ok(g) => g,
				Err(p) => p.into_inner(),
			};
		}
	}

	pub fn thread_finish(self: &Arc<Self>, tid: Tid) {
		let mut g = self.g();
		g.threads[tid as usize].status = Status::Finished;
		log(&mut g, tid, EvKind::Finish, 0, 0);
		if g.exec == ExecMode::Baton && g.aborted.is_none() {
			let _g = self.hand_over(tid, g);
		}
	}

	/// explicit scheduling point inside user code
	pub fn yield_point(self: &Arc<Self>, tid: Tid) {
		let g = self.g();
		if g.setup {
			return;
		}
		if g.aborted.is_some() {
			drop(g);
			if !std::thread::panicking() {
				bail();
			}
			return;
		}
		if g.exec == ExecMode::Baton {
			let g = self.sched_point(tid, g);
			if g.aborted.is_some() {
				drop(g);
				if !std::thread::panicking() {
					bail();
				}
			}
		}
	}

	/// the thread failed a try and wants others to run (fair round robin in RunToBlock)
	pub fn yield_retry(self: &Arc<Self>, tid: Tid) {
		let mut g = self.g();
		if g.aborted.is_some() {
			drop(g);
			if !std::thread::panicking() {
				bail();
			}
			return;
		}
		if g.exec != ExecMode::Baton {
			return;
		}
		g.stats.steps += 1;
		self.check_budget(&mut g);
		if g.aborted.is_some() {
			drop(g);
			bail();
		}
		// prefer any other eligible thread
		let next = pick_next_other(&mut g, tid);
		if let Some(n) = next {
			g.running = n;
			g.stats.switches += 1;
			g.trace_hash = mix(g.trace_hash, 1000 + n as u64);
			self.cv.notify_all();
			let g = self.wait_turn(tid, g);
			if g.aborted.is_some() {
				drop(g);
				bail();
			}
		}
	}

	pub fn wait_cond(self: &Arc<Self>, tid: Tid, c: Cond) {
		let mut g = self.g();
		loop {
			if g.aborted.is_some() {
				drop(g);
				bail();
			}
			if cond_true(&g, c) {
				g.threads[tid as usize].status = Status::Runnable;
				return;
			}
			if g.exec != ExecMode::Baton {
				g.aborted = Some(Abort::Harness("wait_cond in solo mode".into()));
				drop(g);
				bail();
			}
			g.threads[tid as usize].status = Status::Waiting(c);
			g = self.hand_over(tid, g);
		}
	}

	pub fn set_flag(&self, f: u32) {
		let mut g = self.g();
		if !g.flags.contains(&f) {
			g.flags.push(f);
		}
	}

	// ------------------------------------------------------------------ sections (C02)

	/// user code is about to touch the payload of `lock` in `mode`
	pub fn section_enter(&self, tid: Tid, lock: LockId, mode: Mode) {
		let mut g = self.g();
		if g.aborted.is_some() || g.setup {
			return;
		}
		g.stats.sections += 1;
		// raw owner table must agree
		let held = g.locks[lock as usize].held_by(tid);
		let ok = match (mode, held) {
			(Mode::Excl, Some(Mode::Excl)) => true,
			(Mode::Shared, Some(_)) => true,
			_ => false,
		};
		if !ok {
			let d = format!(
				"thread {tid} enters a {} section of lock {lock} but holds it as {:?}",
				mode.ch(),
				held
			);
			push_violation(&mut g, "C02", "section_without_hold", d);
		}
		let others: Vec<(Tid, Mode)> = g.sections[lock as usize]
			.iter()
			.filter(|(t, _)| *t != tid)
			.cloned()
			.collect();
		for (t, m) in &others {
			if mode == Mode::Excl || *m == Mode::Excl {
				let d = format!(
					"sections overlap on lock {lock}: thread {tid} ({}) with thread {t} ({})",
					mode.ch(),
					m.ch()
				);
				push_violation(&mut g, "C02", "overlap", d);
			} else {
				g.stats.shared_overlaps += 1;
			}
		}
		g.sections[lock as usize].push((tid, mode));
		log(&mut g, tid, EvKind::SectionEnter, lock, mode as u32);
	}

	pub fn section_exit(&self, tid: Tid, lock: LockId, mode: Mode) {
		let mut g = self.g();
		if g.setup {
			return;
		}
		if let Some(p) = g.sections[lock as usize]
			.iter()
			.position(|s| *s == (tid, mode))
		{
			g.sections[lock as usize].remove(p);
		}
		log(&mut g, tid, EvKind::SectionExit, lock, mode as u32);
	}

	// ------------------------------------------------------------------ poison model (C10)

	pub fn pois_enable(&self, tracked: &[LockId]) {
		let mut g = self.g();
		g.pois.enabled = true;
		for t in tracked {
			g.pois.tracked.insert(*t);
		}
	}

	/// verdict observed at a Poisonable position of an acquisition
	pub fn pois_check(&self, lock: LockId, verdict: Option<bool>, what: &str) {
		let mut g = self.g();
		if !g.pois.enabled || !g.pois.tracked.contains(&lock) {
			return;
		}
		g.pois.checks += 1;
		match verdict {
			None => push_violation(&mut g, "C10", "no_poison_verdict", format!("{what}: poisonable lock {lock} carries no Ok/Err verdict")),
			Some(p) => {
				if p {
					g.pois.poisoned_seen += 1;
				}
				if let (Some(route), false) = (g.pois.must.get(&lock).cloned(), p) {
					push_violation(
						&mut g,
						"C10",
						"not_poisoned_after_panic",
						format!("route={route}|{what}: lock {lock} reports Ok although a panic unwound during an exclusive hold via {route}"),
					);
				}
				if p && !g.pois.may.contains(&lock) {
					push_violation(
						&mut g,
						"C10",
						"spuriously_poisoned",
						format!("{what}: lock {lock} reports Err but no panic happened during a hold since the last clear"),
					);
				}
			}
		}
	}

	/// a panic is about to unwind while `lock` is held (exclusively or not) via `route`
	pub fn pois_panic(&self, lock: LockId, exclusive: bool, route: &str) {
		let mut g = self.g();
		if !g.pois.enabled || !g.pois.tracked.contains(&lock) {
			return;
		}
		g.pois.may.insert(lock);
		if exclusive {
			g.pois.must.entry(lock).or_insert_with(|| route.to_string());
		}
	}

	/// `lock` is held by a call made while its thread was already unwinding
	pub fn pois_may(&self, lock: LockId) {
		let mut g = self.g();
		if g.pois.enabled && g.pois.tracked.contains(&lock) {
			g.pois.may.insert(lock);
		}
	}

	pub fn pois_clear(&self, lock: LockId) {
		let mut g = self.g();
		g.pois.must.remove(&lock);
		g.pois.may.remove(&lock);
	}

	pub fn pois_snapshot(&self) -> PoisModel {
		self.g().pois.clone()
	}

	pub fn shadow(&self, lock: LockId) -> u64 {
		self.g().shadow[lock as usize]
	}
	pub fn bump_shadow(&self, lock: LockId) {
		let mut g = self.g();
		g.shadow[lock as usize] += 1;
		g.writes_done[lock as usize] += 1;
	}
}

pub fn bail() -> ! {
	resume_unwind(Box::new(EpisodeAbort))
}

fn cond_true(g: &Inner, c: Cond) -> bool {
	match c {
		Cond::Flag(f) => g.flags.contains(&f),
		Cond::ThreadBlockedOrDone(t) => matches!(
			g.threads[t as usize].status,
			Status::Blocked(..) | Status::Finished
		),
	}
}

pub fn held_of(g: &Inner, tid: Tid) -> Vec<(LockId, Mode)> {
	let mut v = Vec::new();
	for (i, l) in g.locks.iter().enumerate() {
		if l.excl == Some(tid) {
			v.push((i as LockId, Mode::Excl));
		}
		for s in &l.shared {
			if *s == tid {
				v.push((i as LockId, Mode::Shared));
			}
		}
	}
	v
}

fn push_violation(g: &mut Inner, prop: &'static str, rule: &'static str, detail: String) {
	if g.violations.len() < 64 {
		g.violations.push(Violation { prop, rule, detail });
	}
}

fn log(g: &mut Inner, tid: Tid, kind: EvKind, lock: LockId, a: u32) {
	if g.keep_log && g.log.len() < 20_000 {
		g.log.push(Ev { tid, kind, lock, a });
	}
}

fn grantable(g: &Inner, tid: Tid, lock: LockId, mode: Mode) -> bool {
	let l = &g.locks[lock as usize];
	match mode {
		Mode::Excl => l.is_free(),
		Mode::Shared => {
			if l.excl.is_some() {
				return false;
			}
			if !l.is_rw {
				// a mutex "read" is an exclusive acquisition
				return l.is_free();
			}
			match g.policy {
				Policy::ReaderPref => true,
				Policy::WriterPref => !l
					.waiters
					.iter()
					.any(|(t, m)| *m == Mode::Excl && *t != tid),
			}
		}
	}
}

const QUEUED_WRITER: Tid = PHANTOM + 777;

/// far above anything a terminating solo episode issues (the largest sweeps stay below 10^7)
const SOLO_RAW_OP_BUDGET: u64 = 200_000_000;

fn queue_phantom_writer(g: &mut Inner, tid: Tid, lock: LockId, mode: Mode) {
	if g.writer_queues && g.exec == ExecMode::Solo && g.policy == Policy::WriterPref && mode == Mode::Shared && tid < PHANTOM {
		let l = &mut g.locks[lock as usize];
		if l.is_rw && !l.waiters.iter().any(|(t, _)| *t == QUEUED_WRITER) {
			l.waiters.push((QUEUED_WRITER, Mode::Excl));
		}
	}
}

fn grant(g: &mut Inner, tid: Tid, lock: LockId, mode: Mode) {
	let l = &mut g.locks[lock as usize];
	l.n_acq += 1;
	match mode {
		Mode::Excl => l.excl = Some(tid),
		Mode::Shared => {
			if l.is_rw {
				l.shared.push(tid)
			} else {
				l.excl = Some(tid)
			}
		}
	}
}

/// audited release; never panics
fn release(g: &mut Inner, tid: Tid, lock: LockId, mode: Mode) {
	let setup = g.setup;
	let l = &mut g.locks[lock as usize];
	let eff_mode = if l.is_rw { mode } else { Mode::Excl };
	let ok = match eff_mode {
		Mode::Excl => {
			if l.excl == Some(tid) {
				l.excl = None;
				true
			} else {
				false
			}
		}
		Mode::Shared => {
			if let Some(p) = l.shared.iter().position(|t| *t == tid) {
				l.shared.remove(p);
				true
			} else {
				false
			}
		}
	};
	if ok {
		l.n_rel += 1;
		// the phantom writer queued behind the solo thread's shared hold leaves with that hold
		if !l.shared.iter().any(|t| *t < PHANTOM) {
			l.waiters.retain(|(t, _)| *t != QUEUED_WRITER);
		}
		if !setup {
			log(g, tid, EvKind::Unlock, lock, mode as u32);
		}
	} else {
		l.bad_releases += 1;
		if (tid as usize) < g.threads.len() {
			g.threads[tid as usize].bad_releases += 1;
		}
		let d = format!(
			"thread {tid} releases lock {lock} ({}) but the owner table says excl={:?} shared={:?}",
			mode.ch(),
			l.excl,
			l.shared
		);
		let faulted = l.faulted;
		// After recording it, let the misuse take the effect it has on a parking_lot lock, so
		// that its consequences (another thread's hold wiped -> overlapping sections) are
		// observable by the other monitors in this very execution:
		//  * an exclusive unlock of a lock the caller does not own stores "unlocked": every
		//    other holder (exclusive or shared) loses its hold;
		//  * a shared unlock decrements the reader count: one other reader loses its hold;
		//    on an exclusively held lock it releases nothing.
		match eff_mode {
			Mode::Excl => {
				l.excl = None;
				l.shared.clear();
			}
			Mode::Shared => {
				if l.excl.is_none() && !l.shared.is_empty() {
					l.shared.remove(0);
				} else if l.excl.is_none() && l.is_rw {
					//  * a shared unlock of a lock nobody holds makes the reader count underflow:
					//    the lock looks read-locked by phantom readers for ever
					l.shared.push(PHANTOM + 999);
					l.auto_release = false;
				}
			}
		}
		log(g, tid, EvKind::BadUnlock, lock, mode as u32);
		// the violation is attributed by the property runners: C05 in fault-free runs, C12 rule
		// R3 in fault runs.  Record under C05 with a flag in the rule when the lock was faulted.
		if faulted {
			push_violation(g, "C05", "bad_release_faulted_lock", d);
		} else {
			push_violation(g, "C05", "bad_release", d);
		}
	}
}

/// choose the next thread. `me_runnable`: the current thread may continue.
fn pick_next(g: &mut Inner, me_runnable: Option<Tid>, _must_switch: bool) -> Option<Tid> {
	let mut elig: Vec<Tid> = Vec::new();
	for (i, t) in g.threads.iter().enumerate() {
		let e = match t.status {
			Status::Runnable => g.started == u32::MAX || true,
			Status::Blocked(l, m) => grantable(g, i as Tid, l, m),
			Status::Waiting(c) => cond_true(g, c),
			Status::NotStarted | Status::Finished => false,
		};
		if e {
			elig.push(i as Tid);
		}
	}
	if elig.is_empty() {
		return None;
	}
	match g.strategy {
		Strategy::Random => Some(elig[g.rng.below(elig.len() as u32) as usize]),
		Strategy::RunToBlock => {
			if let Some(me) = me_runnable {
				if elig.contains(&me) {
					return Some(me);
				}
			}
			// round robin from running+1
			let n = g.threads.len() as u32;
			for k in 1..=n {
				let c = (g.running + k) % n;
				if elig.contains(&c) {
					return Some(c);
				}
			}
			None
		}
		Strategy::Pct(_) => {
			let step = g.stats.steps;
			if g.pct_points.contains(&step) {
				if let Some(me) = me_runnable {
					// demote the running thread
					let low = g.threads.iter().map(|t| t.prio).min().unwrap_or(0);
					g.threads[me as usize].prio = low.saturating_sub(1);
				}
			}
			elig.iter()
				.copied()
				.max_by_key(|t| (g.threads[*t as usize].prio, *t))
		}
	}
}

fn pick_next_other(g: &mut Inner, me: Tid) -> Option<Tid> {
	let mut elig: Vec<Tid> = Vec::new();
	for (i, t) in g.threads.iter().enumerate() {
		if i as Tid == me {
			continue;
		}
		let e = match t.status {
			Status::Runnable => true,
			Status::Blocked(l, m) => grantable(g, i as Tid, l, m),
			Status::Waiting(c) => cond_true(g, c),
			_ => false,
		};
		if e {
			elig.push(i as Tid);
		}
	}
	if elig.is_empty() {
		return None;
	}
	match g.strategy {
		Strategy::Random => {
			// allow staying with probability 1/(n+1)
			let k = g.rng.below(elig.len() as u32 + 1) as usize;
			if k == elig.len() {
				None
			} else {
				Some(elig[k])
			}
		}
		_ => {
			let n = g.threads.len() as u32;
			for k in 1..=n {
				let c = (me + k) % n;
				if elig.contains(&c) {
					return Some(c);
				}
			}
			None
		}
	}
}

pub fn ev_to_string(e: &Ev) -> String {
	format!("t{} {:?} lock={} a={}", e.tid, e.kind, e.lock, e.a)
}
