//! Auditing raw locks: `lock_api::RawMutex` / `RawRwLock` implementations that hold no lock
//! state of their own — every operation is forwarded to the World of the current thread.
use std::sync::atomic::{AtomicU32, Ordering::Relaxed};

use lock_api::GuardNoSend;

use crate::world::{cur, take_reg_tag, LockId, Mode, Op};

pub struct AuditMutex {
	id: AtomicU32,
}
pub struct AuditRwLock {
	id: AtomicU32,
}

fn resolve(id: &AtomicU32, is_rw: bool) -> LockId {
	let v = id.load(Relaxed);
	if v != 0 {
		return v;
	}
	let new = match take_reg_tag() {
		Some(t) => t,
		None => {
			// a lock created by happylock itself or by a constructor path: auto-register
			let (w, _) = cur();
			w.add_lock(is_rw)
		}
	};
	id.store(new, Relaxed);
	new
}

impl AuditMutex {
	pub fn lock_id(&self) -> LockId {
		self.id.load(Relaxed)
	}
}
impl AuditRwLock {
	pub fn lock_id(&self) -> LockId {
		self.id.load(Relaxed)
	}
}

unsafe impl lock_api::RawMutex for AuditMutex {
	#[allow(clippy::declare_interior_mutable_const)]
	const INIT: Self = AuditMutex {
		id: AtomicU32::new(0),
	};
	type GuardMarker = GuardNoSend;

	fn lock(&self) {
		let id = resolve(&self.id, false);
		let (w, t) = cur();
		w.raw_op(t, id, Op::Lock, Mode::Excl);
	}
	fn try_lock(&self) -> bool {
		let id = resolve(&self.id, false);
		let (w, t) = cur();
		w.raw_op(t, id, Op::Try, Mode::Excl)
	}
	unsafe fn unlock(&self) {
		let id = resolve(&self.id, false);
		let (w, t) = cur();
		w.raw_op(t, id, Op::Unlock, Mode::Excl);
	}
}

unsafe impl lock_api::RawRwLock for AuditRwLock {
	#[allow(clippy::declare_interior_mutable_const)]
	const INIT: Self = AuditRwLock {
		id: AtomicU32::new(0),
	};
	type GuardMarker = GuardNoSend;

	fn lock_shared(&self) {
		let id = resolve(&self.id, true);
		let (w, t) = cur();
		w.raw_op(t, id, Op::Lock, Mode::Shared);
	}
	fn try_lock_shared(&self) -> bool {
		let id = resolve(&self.id, true);
		let (w, t) = cur();
		w.raw_op(t, id, Op::Try, Mode::Shared)
	}
	unsafe fn unlock_shared(&self) {
		let id = resolve(&self.id, true);
		let (w, t) = cur();
		w.raw_op(t, id, Op::Unlock, Mode::Shared);
	}
	fn lock_exclusive(&self) {
		let id = resolve(&self.id, true);
		let (w, t) = cur();
		w.raw_op(t, id, Op::Lock, Mode::Excl);
	}
	fn try_lock_exclusive(&self) -> bool {
		let id = resolve(&self.id, true);
		let (w, t) = cur();
		w.raw_op(t, id, Op::Try, Mode::Excl)
	}
	unsafe fn unlock_exclusive(&self) {
		let id = resolve(&self.id, true);
		let (w, t) = cur();
		w.raw_op(t, id, Op::Unlock, Mode::Excl);
	}
}
