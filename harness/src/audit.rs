//! Auditing raw locks: `lock_api::RawMutex` / `RawRwLock` implementations that hold no lock
//! state of their own — every operation is forwarded to the World of the current thread.
use std::sync::atomic::{AtomicU32, Ordering::Relaxed};

use lock_api::GuardNoSend;

use crate::world::{cur, take_reg_tag, LockId, Mode, Op};

thread_local! {
	/// set by the harness while it ends a hold through a guard (drop or `Type::unlock(guard)`):
	/// the key travels inside the guard, so it must not be obtainable before the last raw unlock
	pub static GUARD_RELEASE: std::cell::Cell<bool> = const { std::cell::Cell::new(false) };
}

/// An observer inside the raw unlock (what a user-supplied raw lock could do): while a guard is
/// being released the thread's key must still be out of reach.
fn probe_key_during_guard_release(id: LockId) {
	if GUARD_RELEASE.with(|g| g.get()) {
		if let Some(k) = happylock::ThreadKey::get() {
			drop(k);
			let (w, t) = cur();
			w.violate(
				"C03",
				"key_obtainable_during_guard_release",
				format!("thread {t}: ThreadKey::get() succeeded inside the raw unlock of lock {id} while a guard was being released (locks covered by it are still held)"),
			);
		}
	}
}

pub struct AuditMutex {
	id: AtomicU32,
}
pub struct AuditRwLock {
	id: AtomicU32,
}

fn resolve(id: &AtomicU32, is_rw: bool) -> LockId {
	let v = id.load(Relaxed);
	if v != 0 {
		return v;
	}
	let new = match take_reg_tag() {
		Some(t) => t,
		None => {
			// a lock created by happylock itself or by a constructor path: auto-register
			let (w, _) = cur();
			w.add_lock(is_rw)
		}
	};
	id.store(new, Relaxed);
	new
}

impl AuditMutex {
	pub fn lock_id(&self) -> LockId {
		self.id.load(Relaxed)
	}
}
impl AuditRwLock {
	pub fn lock_id(&self) -> LockId {
		self.id.load(Relaxed)
	}
}

unsafe impl lock_api::RawMutex for AuditMutex {
	#[allow(clippy::declare_interior_mutable_const)]
	const INIT: Self = AuditMutex {
		id: AtomicU32::new(0),
	};
	type GuardMarker = GuardNoSend;

	fn lock(&self) {
		let id = resolve(&self.id, false);
		let (w, t) = cur();
		w.raw_op(t, id, Op::Lock, Mode::Excl);
	}
	fn try_lock(&self) -> bool {
		let id = resolve(&self.id, false);
		let (w, t) = cur();
		w.raw_op(t, id, Op::Try, Mode::Excl)
	}
	unsafe fn unlock(&self) {
		let id = resolve(&self.id, false);
		probe_key_during_guard_release(id);
		let (w, t) = cur();
		w.raw_op(t, id, Op::Unlock, Mode::Excl);
	}
}

unsafe impl lock_api::RawRwLock for AuditRwLock {
	#[allow(clippy::declare_interior_mutable_const)]
	const INIT: Self = AuditRwLock {
		id: AtomicU32::new(0),
	};
	type GuardMarker = GuardNoSend;

	fn lock_shared(&self) {
		let id = resolve(&self.id, true);
		let (w, t) = cur();
		w.raw_op(t, id, Op::Lock, Mode::Shared);
	}
	fn try_lock_shared(&self) -> bool {
		let id = resolve(&self.id, true);
		let (w, t) = cur();
		w.raw_op(t, id, Op::Try, Mode::Shared)
	}
	unsafe fn unlock_shared(&self) {
		let id = resolve(&self.id, true);
		probe_key_during_guard_release(id);
		let (w, t) = cur();
		w.raw_op(t, id, Op::Unlock, Mode::Shared);
	}
	fn lock_exclusive(&self) {
		let id = resolve(&self.id, true);
		let (w, t) = cur();
		w.raw_op(t, id, Op::Lock, Mode::Excl);
	}
	fn try_lock_exclusive(&self) -> bool {
		let id = resolve(&self.id, true);
		let (w, t) = cur();
		w.raw_op(t, id, Op::Try, Mode::Excl)
	}
	unsafe fn unlock_exclusive(&self) {
		let id = resolve(&self.id, true);
		probe_key_during_guard_release(id);
		let (w, t) = cur();
		w.raw_op(t, id, Op::Unlock, Mode::Excl);
	}
}

/// A ONE-BYTE auditing raw mutex (the id is the World's lock id, which stays below 256 in the
/// episodes that use it): `Mutex<u8, SmallAuditMutex>` is 3 bytes with alignment 1, like a
/// parking_lot `Mutex<u8>`, so several of them share one 8-byte word.
pub struct SmallAuditMutex {
	id: std::sync::atomic::AtomicU8,
}
impl SmallAuditMutex {
	fn resolve(&self) -> LockId {
		let v = self.id.load(Relaxed);
		if v != 0 {
			return v as LockId;
		}
		let new = match take_reg_tag() {
			Some(t) => t,
			None => {
				let (w, _) = cur();
				w.add_lock(false)
			}
		};
		assert!(new < 256, "SmallAuditMutex needs a lock id below 256");
		self.id.store(new as u8, Relaxed);
		new
	}
}
unsafe impl lock_api::RawMutex for SmallAuditMutex {
	#[allow(clippy::declare_interior_mutable_const)]
	const INIT: Self = SmallAuditMutex {
		id: std::sync::atomic::AtomicU8::new(0),
	};
	type GuardMarker = GuardNoSend;

	fn lock(&self) {
		let id = self.resolve();
		let (w, t) = cur();
		w.raw_op(t, id, Op::Lock, Mode::Excl);
	}
	fn try_lock(&self) -> bool {
		let id = self.resolve();
		let (w, t) = cur();
		w.raw_op(t, id, Op::Try, Mode::Excl)
	}
	unsafe fn unlock(&self) {
		let id = self.resolve();
		probe_key_during_guard_release(id);
		let (w, t) = cur();
		w.raw_op(t, id, Op::Unlock, Mode::Excl);
	}
}
