//! Program / shape specifications (pure data) and their seeded generators.

use crate::arena::{ArenaSpec, LeafKind, UnitKind};
use crate::rng::{hash64, hash_str, Rng};
use crate::world::Mode;

#[derive(Clone, Copy, Debug, PartialEq, Eq, Hash)]
pub enum CollKind {
	Boxed,
	Ref,
	Retry,
}
impl CollKind {
	pub fn name(self) -> &'static str {
		match self {
			CollKind::Boxed => "boxed",
			CollKind::Ref => "ref",
			CollKind::Retry => "retry",
		}
	}
	pub const ALL: [CollKind; 3] = [CollKind::Boxed, CollKind::Ref, CollKind::Retry];
}

#[derive(Clone, Debug, PartialEq, Eq, Hash)]
pub enum MemberSpec {
	Leaf(usize),
	Unit(usize),
	/// thread-local nested collection; members are Leaf | Unit only (depth 2)
	Nested(CollKind, Vec<MemberSpec>),
	/// Poisonable<BoxedLockCollection<..>> nested
	PoisNested(Vec<MemberSpec>),
}

#[derive(Clone, Debug, PartialEq, Eq, Hash)]
pub enum Target {
	Leaf(usize),
	Unit(usize),
	Coll(CollKind, Vec<MemberSpec>),
	/// Poisonable<BoxedLockCollection<Vec<Member>>> (kind Boxed / Ref) or
	/// Poisonable<RetryingLockCollection<Vec<Member>>> (kind Retry) locked through the Poisonable API
	PoisColl(CollKind, Vec<MemberSpec>),
}

#[derive(Clone, Copy, Debug, PartialEq, Eq, Hash)]
pub enum Api {
	/// lock()/read(), guard dropped
	Guard,
	/// lock()/read(), then Type::unlock(guard)
	GuardUnlock,
	/// try_lock()/try_read() in a retry loop
	TryLoop,
	Scoped,
	ScopedTry,
}
impl Api {
	pub fn name(self) -> &'static str {
		match self {
			Api::Guard => "guard",
			Api::GuardUnlock => "guard+unlock",
			Api::TryLoop => "try",
			Api::Scoped => "scoped",
			Api::ScopedTry => "scoped_try",
		}
	}
	pub const ALL: [Api; 5] = [
		Api::Guard,
		Api::GuardUnlock,
		Api::TryLoop,
		Api::Scoped,
		Api::ScopedTry,
	];
}

#[derive(Clone, Debug, PartialEq, Eq, Hash)]
pub struct Acq {
	pub target: Target,
	pub mode: Mode,
	pub api: Api,
	/// scoped APIs: lend `&mut key` instead of moving the key in
	pub lent: bool,
	/// the critical section panics (C10/C11)
	pub panic: bool,
	/// the whole call is made from a destructor that runs while the thread is already unwinding
	/// from an unrelated panic (`std::thread::panicking()` is true throughout)
	pub unwind: bool,
}

#[derive(Clone, Debug, PartialEq, Eq, Hash)]
pub struct Program {
	pub arena: ArenaSpec,
	pub threads: Vec<Vec<Acq>>,
}

// ---------------------------------------------------------------------------------------------

pub fn member_desc(m: &MemberSpec) -> String {
	match m {
		MemberSpec::Leaf(i) => format!("L{i}"),
		MemberSpec::Unit(u) => format!("U{u}"),
		MemberSpec::Nested(k, v) => format!(
			"{}[{}]",
			k.name(),
			v.iter().map(member_desc).collect::<Vec<_>>().join(",")
		),
		MemberSpec::PoisNested(v) => format!(
			"pois(boxed[{}])",
			v.iter().map(member_desc).collect::<Vec<_>>().join(",")
		),
	}
}

pub fn target_desc(t: &Target) -> String {
	match t {
		Target::Leaf(i) => format!("L{i}"),
		Target::Unit(u) => format!("U{u}"),
		Target::Coll(k, v) => format!(
			"{}[{}]",
			k.name(),
			v.iter().map(member_desc).collect::<Vec<_>>().join(",")
		),
		Target::PoisColl(k, v) => format!(
			"pois({}[{}])",
			if *k == CollKind::Retry { "retry" } else { "boxed" },
			v.iter().map(member_desc).collect::<Vec<_>>().join(",")
		),
	}
}

pub fn acq_desc(a: &Acq) -> String {
	format!(
		"{}:{}:{}{}{}",
		target_desc(&a.target),
		a.mode.ch(),
		a.api.name(),
		if a.lent { ":lent" } else { "" },
		if a.panic { ":PANIC" } else { "" }
	) + if a.unwind { ":IN-UNWIND" } else { "" }
}

pub fn arena_desc(a: &ArenaSpec) -> String {
	format!(
		"leaves=[{}] units=[{}]",
		a.leaves
			.iter()
			.map(|k| k.name())
			.collect::<Vec<_>>()
			.join(","),
		a.units
			.iter()
			.map(|(k, n)| format!("{}x{}", k.name(), n))
			.collect::<Vec<_>>()
			.join(",")
	)
}

pub fn program_desc(p: &Program) -> String {
	let mut s = arena_desc(&p.arena);
	for (i, t) in p.threads.iter().enumerate() {
		s.push_str(&format!(
			" | t{i}: {}",
			t.iter().map(acq_desc).collect::<Vec<_>>().join(" ; ")
		));
	}
	s
}

pub fn program_hash(p: &Program) -> u64 {
	hash_str(&program_desc(p))
}

/// shape hash that ignores which concrete leaves are used (for "distinct shape" counting)
pub fn shape_hash(p: &Program) -> u64 {
	let mut h = 17;
	for t in &p.threads {
		h = hash64(h, 99);
		for a in t {
			let k = match &a.target {
				Target::Leaf(_) => 1,
				Target::Unit(_) => 2,
				Target::Coll(k, v) => 10 + *k as u64 * 10 + v.len() as u64,
				Target::PoisColl(k, v) => 50 + (*k == CollKind::Retry) as u64 * 7 + v.len() as u64,
			};
			h = hash64(h, k * 100 + a.api as u64 * 4 + a.mode as u64 * 2 + a.lent as u64);
		}
	}
	h
}

// ---------------------------------------------------------------------------------------------
// structural helpers (need the arena spec to know leaf kinds)

impl ArenaSpec {
	pub fn leaf_is_rw(&self, i: usize) -> bool {
		self.leaves[i].is_rw()
	}
	pub fn unit_is_rw(&self, u: usize) -> bool {
		self.units[u].0.is_rw()
	}
}

pub fn member_readable(a: &ArenaSpec, m: &MemberSpec) -> bool {
	match m {
		MemberSpec::Leaf(i) => a.leaf_is_rw(*i),
		MemberSpec::Unit(u) => a.unit_is_rw(*u),
		MemberSpec::Nested(_, v) | MemberSpec::PoisNested(v) => {
			v.iter().all(|m| member_readable(a, m))
		}
	}
}

pub fn target_readable(a: &ArenaSpec, t: &Target) -> bool {
	match t {
		Target::Leaf(i) => a.leaf_is_rw(*i),
		Target::Unit(u) => a.unit_is_rw(*u),
		Target::Coll(_, v) | Target::PoisColl(_, v) => v.iter().all(|m| member_readable(a, m)),
	}
}

// ---------------------------------------------------------------------------------------------
// generator for small concurrent programs (C01 family)

pub struct GenCfg {
	pub max_threads: u32,
	pub min_threads: u32,
	pub max_acqs: u32,
	pub max_leaves: u32,
	pub allow_units: bool,
	pub allow_nested: bool,
	pub allow_pois: bool,
	pub allow_panic: bool,
	pub retry_bias: bool,
	/// some acquisitions are made from a destructor during an unrelated unwind
	pub allow_unwind: bool,
}

impl Default for GenCfg {
	fn default() -> Self {
		GenCfg {
			max_threads: 4,
			min_threads: 2,
			max_acqs: 3,
			max_leaves: 5,
			allow_units: true,
			allow_nested: true,
			allow_pois: true,
			allow_panic: false,
			retry_bias: false,
			allow_unwind: true,
		}
	}
}

pub fn gen_arena(r: &mut Rng, g: &GenCfg) -> ArenaSpec {
	let nleaves = r.range(2, g.max_leaves);
	let mut leaves = Vec::new();
	// bias: mostly one family so read acquisitions are frequent
	let fam = r.below(3); // 0 = all rw, 1 = all mutex, 2 = mixed
	for _ in 0..nleaves {
		let rw = match fam {
			0 => true,
			1 => false,
			_ => r.chance(1, 2),
		};
		let pois = g.allow_pois && r.chance(1, 5);
		leaves.push(match (rw, pois) {
			(true, false) => LeafKind::R,
			(false, false) => LeafKind::M,
			(true, true) => LeafKind::PR,
			(false, true) => LeafKind::PM,
		});
	}
	let mut units = Vec::new();
	if g.allow_units {
		let nu = match r.below(4) {
			0 | 1 => 0,
			2 => 1,
			_ => 2,
		};
		for _ in 0..nu {
			let kinds = [
				UnitKind::OwnedM,
				UnitKind::OwnedR,
				UnitKind::OwnedR,
				UnitKind::BoxedM,
				UnitKind::BoxedR,
				UnitKind::RetryM,
				UnitKind::RetryR,
			];
			let k = *r.pick(&kinds);
			units.push((k, r.range(1, 3) as usize));
		}
	}
	ArenaSpec { leaves, units }
}

/// pick a random non-empty duplicate-free member list
fn gen_members(r: &mut Rng, a: &ArenaSpec, g: &GenCfg, depth: u32, used: &mut Vec<MemberSpec>) -> Vec<MemberSpec> {
	// candidates: leaves and units not yet used in this acquisition
	let mut cands: Vec<MemberSpec> = Vec::new();
	for i in 0..a.leaves.len() {
		cands.push(MemberSpec::Leaf(i));
	}
	for u in 0..a.units.len() {
		cands.push(MemberSpec::Unit(u));
	}
	cands.retain(|c| !used.contains(c));
	r.shuffle(&mut cands);
	let want = if depth == 0 {
		r.range(1, 4) as usize
	} else {
		r.range(1, 2) as usize
	};
	let mut out = Vec::new();
	while out.len() < want {
		if depth == 0 && g.allow_nested && r.chance(1, 4) && cands.len() >= 1 {
			// nested collection from the remaining candidates
			let mut sub_used = used.clone();
			sub_used.extend(out.iter().cloned().flat_map(flatten_member));
			let sub = gen_members(r, a, g, 1, &mut sub_used);
			if sub.is_empty() {
				break;
			}
			for s in &sub {
				cands.retain(|c| c != s);
				used.push(s.clone());
			}
			if g.allow_pois && r.chance(1, 5) {
				out.push(MemberSpec::PoisNested(sub));
			} else {
				out.push(MemberSpec::Nested(*r.pick(&CollKind::ALL), sub));
			}
			continue;
		}
		match cands.pop() {
			Some(c) => {
				used.push(c.clone());
				out.push(c);
			}
			None => break,
		}
	}
	out
}

fn flatten_member(m: MemberSpec) -> Vec<MemberSpec> {
	match m {
		MemberSpec::Nested(_, v) | MemberSpec::PoisNested(v) => v,
		x => vec![x],
	}
}

pub fn gen_acq(r: &mut Rng, a: &ArenaSpec, g: &GenCfg) -> Acq {
	let tk = r.below(10);
	let target = if tk < 2 {
		Target::Leaf(r.below(a.leaves.len() as u32) as usize)
	} else if tk < 3 && !a.units.is_empty() {
		Target::Unit(r.below(a.units.len() as u32) as usize)
	} else {
		let mut used = Vec::new();
		let members = gen_members(r, a, g, 0, &mut used);
		if g.allow_pois && r.chance(1, 12) {
			Target::PoisColl(if r.chance(1, 2) { CollKind::Retry } else { CollKind::Boxed }, members)
		} else {
			let k = if g.retry_bias && r.chance(1, 2) {
				CollKind::Retry
			} else {
				*r.pick(&CollKind::ALL)
			};
			Target::Coll(k, members)
		}
	};
	let readable = target_readable(a, &target);
	let mode = if readable && r.chance(1, 2) {
		Mode::Shared
	} else {
		Mode::Excl
	};
	let api = *r.pick(&Api::ALL);
	let lent = matches!(api, Api::Scoped | Api::ScopedTry) && r.chance(1, 2);
	Acq {
		target,
		mode,
		api,
		lent,
		panic: g.allow_panic && r.chance(1, 6),
		unwind: g.allow_unwind && r.chance(1, 8),
	}
}

pub fn gen_program(r: &mut Rng, g: &GenCfg) -> Program {
	let arena = gen_arena(r, g);
	let nt = r.range(g.min_threads, g.max_threads);
	let mut threads = Vec::new();
	for _ in 0..nt {
		let na = r.range(1, g.max_acqs);
		let mut t = Vec::new();
		for _ in 0..na {
			t.push(gen_acq(r, &arena, g));
		}
		threads.push(t);
	}
	// regularly make two threads list the same locks in opposite orders
	if nt >= 2 && r.chance(1, 2) {
		if let Some(first) = threads[0].first().cloned() {
			if let Target::Coll(_, mem) = &first.target {
				let mut rev = mem.clone();
				rev.reverse();
				let k = *r.pick(&CollKind::ALL);
				let mut acq = first.clone();
				acq.target = Target::Coll(k, rev);
				acq.api = *r.pick(&Api::ALL);
				acq.lent = matches!(acq.api, Api::Scoped | Api::ScopedTry) && r.chance(1, 2);
				threads[1][0] = acq;
			}
		}
	}
	Program { arena, threads }
}

// ---------------------------------------------------------------------------------------------
// shape enumeration for the sequential (solo-mode) families

pub fn permutations(n: usize) -> Vec<Vec<usize>> {
	fn rec(cur: &mut Vec<usize>, used: &mut Vec<bool>, n: usize, out: &mut Vec<Vec<usize>>) {
		if cur.len() == n {
			out.push(cur.clone());
			return;
		}
		for i in 0..n {
			if !used[i] {
				used[i] = true;
				cur.push(i);
				rec(cur, used, n, out);
				cur.pop();
				used[i] = false;
			}
		}
	}
	let mut out = Vec::new();
	rec(&mut Vec::new(), &mut vec![false; n], n, &mut out);
	out
}

#[derive(Clone, Copy, Debug, PartialEq, Eq, Hash)]
pub enum Fam {
	R,
	M,
	PR,
	PM,
	/// alternating R / M / PR / PM
	Mixed,
}
impl Fam {
	pub const ALL: [Fam; 5] = [Fam::R, Fam::M, Fam::PR, Fam::PM, Fam::Mixed];
	pub fn leaf(self, i: usize) -> LeafKind {
		match self {
			Fam::R => LeafKind::R,
			Fam::M => LeafKind::M,
			Fam::PR => LeafKind::PR,
			Fam::PM => LeafKind::PM,
			Fam::Mixed => [LeafKind::R, LeafKind::M, LeafKind::PR, LeafKind::PM][i % 4],
		}
	}
}

/// every (arena, target) shape over `n` leaf locks of family `fam`: single, each collection
/// kind in every arrangement, poisonable-wrapped collection, every 2-level nesting split, and
/// arena units (owned / boxed / retrying over Vec) directly and nested.
pub fn enum_shapes(n: usize, fam: Fam, all_perms: bool) -> Vec<(ArenaSpec, Target)> {
	let mut out = Vec::new();
	let leaves: Vec<LeafKind> = (0..n).map(|i| fam.leaf(i)).collect();
	let arena = ArenaSpec {
		leaves: leaves.clone(),
		units: vec![],
	};
	let mut perms = permutations(n);
	if !all_perms && n >= 4 {
		// identity, reverse and the rotations
		let mut keep = Vec::new();
		for r in 0..n {
			let p: Vec<usize> = (0..n).map(|i| (i + r) % n).collect();
			let mut q = p.clone();
			q.reverse();
			keep.push(p);
			keep.push(q);
		}
		keep.push(vec![1, 3, 0, 2]);
		keep.sort();
		keep.dedup();
		perms = keep;
	}
	if n == 1 {
		out.push((arena.clone(), Target::Leaf(0)));
	}
	for p in &perms {
		let mem: Vec<MemberSpec> = p.iter().map(|i| MemberSpec::Leaf(*i)).collect();
		for k in CollKind::ALL {
			out.push((arena.clone(), Target::Coll(k, mem.clone())));
		}
		out.push((arena.clone(), Target::PoisColl(CollKind::Boxed, mem.clone())));
		out.push((arena.clone(), Target::PoisColl(CollKind::Retry, mem.clone())));
		// nestings: first j members form an inner collection
		if n >= 1 {
			for j in 1..=n {
				let inner: Vec<MemberSpec> = mem[..j].to_vec();
				let rest: Vec<MemberSpec> = mem[j..].to_vec();
				for k2 in CollKind::ALL {
					for k1 in CollKind::ALL {
						// inner first, and inner last
						let mut m1 = vec![MemberSpec::Nested(k2, inner.clone())];
						m1.extend(rest.clone());
						out.push((arena.clone(), Target::Coll(k1, m1)));
						if !rest.is_empty() {
							let mut m2 = rest.clone();
							m2.push(MemberSpec::Nested(k2, inner.clone()));
							out.push((arena.clone(), Target::Coll(k1, m2)));
						}
					}
				}
				let mut m3 = rest.clone();
				m3.insert(rest.len() / 2, MemberSpec::PoisNested(inner.clone()));
				out.push((arena.clone(), Target::Coll(CollKind::Boxed, m3.clone())));
				out.push((arena.clone(), Target::Coll(CollKind::Retry, m3)));
			}
		}
		if !all_perms && n >= 3 && p != &perms[0] && p != perms.last().unwrap() {
			// nestings only for the first and last arrangement in the reduced tier
		}
	}
	// arena units with n members (only homogeneous families)
	let unit_kinds: &[UnitKind] = match fam {
		Fam::R => &[UnitKind::OwnedR, UnitKind::BoxedR, UnitKind::RetryR],
		Fam::M => &[UnitKind::OwnedM, UnitKind::BoxedM, UnitKind::RetryM],
		_ => &[],
	};
	for uk in unit_kinds {
		let a = ArenaSpec {
			leaves: vec![],
			units: vec![(*uk, n)],
		};
		out.push((a.clone(), Target::Unit(0)));
		for k in CollKind::ALL {
			out.push((a.clone(), Target::Coll(k, vec![MemberSpec::Unit(0)])));
			out.push((
				a.clone(),
				Target::Coll(k, vec![MemberSpec::Nested(CollKind::Boxed, vec![MemberSpec::Unit(0)])]),
			));
		}
		// unit + a free leaf on either side
		let a2 = ArenaSpec {
			leaves: vec![fam.leaf(0)],
			units: vec![(*uk, n)],
		};
		for k in CollKind::ALL {
			out.push((
				a2.clone(),
				Target::Coll(k, vec![MemberSpec::Unit(0), MemberSpec::Leaf(0)]),
			));
			out.push((
				a2.clone(),
				Target::Coll(k, vec![MemberSpec::Leaf(0), MemberSpec::Unit(0)]),
			));
		}
	}
	out
}
