//! Solo-mode episodes: one real thread, other holders are phantoms.
use std::sync::Arc;

use happylock::ThreadKey;

use crate::arena::*;
use crate::exec::*;
use crate::world::*;

pub struct SoloOut {
	pub violations: Vec<Violation>,
	pub aborted: Option<Abort>,
	pub stats: Stats,
	pub tstats: TStats,
	pub log: Vec<String>,
	pub unwound: Option<String>,
	pub deadlock_witness: String,
	/// the worker thread's key is gone (leaked by the episode): do not reuse the thread
	pub tainted: bool,
}

/// Build a Solo world + arena on the current thread and run `f`.
pub fn solo<T: Send>(
	spec: &ArenaSpec,
	policy: Policy,
	keep_log: bool,
	f: impl FnOnce(&mut Tc<'_>) -> T + Send,
) -> (Option<T>, SoloOut) {
	// a worker whose key was leaked by an earlier episode runs the episode on a fresh thread
	match ThreadKey::get() {
		Some(k) => drop(k),
		None => return on_fresh_thread(move || solo(spec, policy, keep_log, f)),
	}
	let w = World::new(WorldCfg {
		exec: ExecMode::Solo,
		policy,
		strategy: Strategy::RunToBlock,
		nthreads: 1,
		seed: 0,
		budget1: u64::MAX / 4,
		budget2: u64::MAX / 4,
		keep_log,
	});
	set_current(Some((w.clone(), 0)));
	let mut key = match ThreadKey::get() {
		Some(k) => k,
		None => {
			set_current(None);
			return (
				None,
				SoloOut {
					violations: vec![],
					aborted: Some(Abort::Harness("worker thread has no key".into())),
					stats: Stats::default(),
					tstats: TStats::default(),
					log: vec![],
					unwound: None,
					deadlock_witness: String::new(),
					tainted: true,
				},
			);
		}
	};
	let arena = Arena::build(&w, spec, &mut key);
	w.end_setup();
	// under the writer-preferring policy a phantom writer queues behind every shared hold of the
	// solo thread (see World::writer_queues)
	w.set_writer_queues(true);
	let mut unwound = None;
	let mut tstats = TStats::default();
	let r = {
		let mut tc = Tc::new(w.clone(), 0, &arena);
		tc.key = Some(key);
		let r = guarded(|| f(&mut tc));
		tstats = tc.stats.clone();
		tc.key = None;
		match r {
			Ok(v) => Some(v),
			Err(Unwound::Abort) => None,
			Err(Unwound::InjectedFault) => {
				unwound = Some("injected fault escaped to the episode top".to_string());
				None
			}
			Err(Unwound::InjectedPanic) => {
				unwound = Some("injected panic escaped to the episode top".to_string());
				None
			}
			Err(Unwound::Other(m)) => {
				unwound = Some(m);
				None
			}
		}
	};
	if let Some(m) = &unwound {
		// a panic raised by the library itself escaped an API call: whatever the thread still holds
		// has no guard that could ever release it
		let held = w.held(0);
		if !held.is_empty() && w.g().aborted.is_none() {
			w.violate(
				"C05",
				"hold_leaked_by_library_panic",
				format!("a call unwound with '{m}' and the thread still holds {:?} with no guard in existence", held),
			);
		}
	}
	w.begin_setup();
	drop(arena);
	let tainted = match ThreadKey::get() {
		Some(k) => {
			drop(k);
			false
		}
		None => true,
	};
	set_current(None);
	let g = w.g();
	(
		r,
		SoloOut {
			violations: g.violations.clone(),
			aborted: g.aborted.clone(),
			stats: g.stats.clone(),
			tstats,
			log: g.log.iter().map(ev_to_string).collect(),
			unwound,
			deadlock_witness: g.deadlock_witness.clone(),
			tainted,
		},
	)
}

/// run `f` on a fresh OS thread (clean thread-local key state) and return its result
pub fn on_fresh_thread<T: Send>(f: impl FnOnce() -> T + Send) -> T {
	std::thread::scope(|s| {
		std::thread::Builder::new()
			.stack_size(512 * 1024)
			.spawn_scoped(s, f)
			.expect("spawn")
			.join()
			.expect("fresh thread panicked")
	})
}

pub fn leaf_ids_flat(arena: &Arena) -> Vec<LockId> {
	let mut v = arena.leaf_ids.clone();
	for u in &arena.unit_ids {
		v.extend(u.iter().copied());
	}
	v
}

pub fn is_rw(w: &Arc<World>, id: LockId) -> bool {
	w.g().locks[id as usize].is_rw
}
