use happylock::collection::RetryingLockCollection;
use happylock::{Mutex, ThreadKey};
use std::sync::mpsc;
use std::time::Duration;

fn main() {
    let (tx, rx) = mpsc::channel();
    std::thread::spawn(move || {
        let a = Mutex::new(1);
        let b = Mutex::new(2);
        // validated: duplicate-free
        let mut c = RetryingLockCollection::try_new(vec![&a, &b]).expect("duplicate-free");
        // safe code: introduce a duplicate after validation
        c.child_mut()[1] = &a;
        let key = ThreadKey::get().unwrap();
        let g = c.lock(key);
        tx.send(g.len()).unwrap();
    });
    match rx.recv_timeout(Duration::from_secs(3)) {
        Ok(n) => println!("lock() returned a guard over {n} members"),
        Err(_) => {
            println!("WITNESS: lock() on a collection validated by try_new never returns after child_mut() introduced a duplicate (single thread, safe code)");
            std::process::exit(1);
        }
    }
}
