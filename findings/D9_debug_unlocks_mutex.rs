use happylock::{Mutex, ThreadKey};
fn main() {
    let m = Mutex::new(5);
    let key = ThreadKey::get().unwrap();
    let guard = m.lock(key);                     // this thread holds the mutex
    std::thread::scope(|s| {
        s.spawn(|| {
            let key = ThreadKey::get().unwrap();
            println!("{:?}", m);                  // formatting a locked mutex
            match m.try_lock(key) {               // must fail: the main thread holds a guard
                Ok(mut g) => { *g += 1; println!("BUG: second thread locked the mutex while the first holds its guard"); std::process::exit(1) }
                Err(_) => println!("ok: still locked"),
            }
        });
    });
    drop(guard);
}
