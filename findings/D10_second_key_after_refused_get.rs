use happylock::{Mutex, ThreadKey};
fn main() {
    let a = Mutex::new(1);
    let b = Mutex::new(2);
    let k1 = ThreadKey::get().unwrap();
    assert!(ThreadKey::get().is_none());          // correctly refused ...
    match ThreadKey::get() {                       // ... but the refusal cleared the flag
        Some(k2) => {
            // two live keys on one thread: lock a then b with no ordering discipline
            let ga = a.lock(k1);
            let gb = b.lock(k2);
            println!("BUG: one thread holds two keys and two independent guards: {} {}", *ga, *gb);
            std::process::exit(1);
        }
        None => println!("ok: still no second key"),
    }
}
