//! raw mutexes in the style of the repository's tests/evil_*.rs
use lock_api::{GuardNoSend, RawMutex};
use std::sync::atomic::{AtomicBool, Ordering::Relaxed};

/// parking_lot mutex whose unlock() panics
pub struct UnlockPanics { pub inner: parking_lot::RawMutex }
unsafe impl RawMutex for UnlockPanics {
    const INIT: Self = Self { inner: parking_lot::RawMutex::INIT };
    type GuardMarker = GuardNoSend;
    fn lock(&self) { self.inner.lock() }
    fn try_lock(&self) -> bool { self.inner.try_lock() }
    unsafe fn unlock(&self) { panic!("unlock panics") }
    fn is_locked(&self) -> bool { self.inner.is_locked() }
}
/// parking_lot mutex whose blocking lock() panics (before doing anything); try_lock works
pub struct LockPanics { pub inner: parking_lot::RawMutex }
unsafe impl RawMutex for LockPanics {
    const INIT: Self = Self { inner: parking_lot::RawMutex::INIT };
    type GuardMarker = GuardNoSend;
    fn lock(&self) { panic!("lock panics") }
    fn try_lock(&self) -> bool { self.inner.try_lock() }
    unsafe fn unlock(&self) { self.inner.unlock() }
    fn is_locked(&self) -> bool { self.inner.is_locked() }
}
/// parking_lot mutex whose try_lock() panics when armed
pub struct TryPanics { pub inner: parking_lot::RawMutex, pub armed: AtomicBool }
unsafe impl RawMutex for TryPanics {
    const INIT: Self = Self { inner: parking_lot::RawMutex::INIT, armed: AtomicBool::new(true) };
    type GuardMarker = GuardNoSend;
    fn lock(&self) { self.inner.lock() }
    fn try_lock(&self) -> bool { if self.armed.load(Relaxed) { panic!("try_lock panics") } self.inner.try_lock() }
    unsafe fn unlock(&self) { self.inner.unlock() }
    fn is_locked(&self) -> bool { self.inner.is_locked() }
}
