// D4b (C12 R2): with first_index = 1 (member 1 was contended), members 0 and 2 taken and the
// try of member 3 panicking, the handler releases {0,1} and leaks member 2.
use d456::TryPanics;
use happylock::collection::RetryingLockCollection;
use happylock::mutex::Mutex;
use happylock::ThreadKey;
use lock_api::RawMutex;
use std::panic::{catch_unwind, AssertUnwindSafe};
use std::sync::atomic::Ordering::Relaxed;
fn main() {
    let m0 = Mutex::<i32, parking_lot::RawMutex>::new(0);
    let m1 = Mutex::<i32, parking_lot::RawMutex>::new(1);
    let m2 = Mutex::<i32, parking_lot::RawMutex>::new(2);
    let m3 = Mutex::<i32, TryPanics>::new(3);
    unsafe { m3.raw() }.armed.store(false, Relaxed);
    // main holds m1 for a moment so that the acquirer's first_index moves to 1
    let key = ThreadKey::get().unwrap();
    let g1 = m1.lock(key);
    std::thread::scope(|s| {
        let h = s.spawn(|| {
            catch_unwind(AssertUnwindSafe(|| {
                let key = ThreadKey::get().unwrap();
                let c = RetryingLockCollection::try_new((&m0, &m1, &m2, &m3)).unwrap();
                let _g = c.lock(key);
            }))
        });
        std::thread::sleep(std::time::Duration::from_millis(200)); // acquirer now blocks on m1
        unsafe { m3.raw() }.armed.store(true, Relaxed); // its next try of m3 will panic
        drop(g1);
        assert!(h.join().unwrap().is_err());
    });
    let leaked: Vec<usize> = [unsafe { m0.raw() }.is_locked(), unsafe { m1.raw() }.is_locked(), unsafe { m2.raw() }.is_locked()]
        .iter().enumerate().filter(|(_, l)| **l).map(|(i, _)| i).collect();
    if !leaked.is_empty() {
        println!("BUG: healthy member(s) {:?} are still locked after the acquisition unwound", leaked);
        std::process::exit(1);
    }
    println!("ok: nothing leaked");
}
