// D5 (C12 R3): a failed try_lock rolls back inside the guarded closure without lowering the
// `locked` counter; when one rollback release panics the unwind handler releases the earlier
// members again. The second release hits a lock that meanwhile belongs to nobody - or to
// another thread.
use d456::UnlockPanics;
use happylock::collection::OwnedLockCollection;
use happylock::mutex::Mutex;
use happylock::ThreadKey;
use lock_api::RawMutex;
use std::panic::{catch_unwind, AssertUnwindSafe};
use std::sync::atomic::{AtomicUsize, Ordering::Relaxed};

static UNLOCKS: AtomicUsize = AtomicUsize::new(0);
/// counts unlock calls; unlocking while not locked is a protocol violation we can observe
struct Counting { inner: parking_lot::RawMutex }
unsafe impl RawMutex for Counting {
    const INIT: Self = Self { inner: parking_lot::RawMutex::INIT };
    type GuardMarker = lock_api::GuardNoSend;
    fn lock(&self) { self.inner.lock() }
    fn try_lock(&self) -> bool { self.inner.try_lock() }
    unsafe fn unlock(&self) { UNLOCKS.fetch_add(1, Relaxed); if self.inner.is_locked() { self.inner.unlock() } }
    fn is_locked(&self) -> bool { self.inner.is_locked() }
}
fn main() {
    let c = OwnedLockCollection::new((
        Mutex::<i32, Counting>::new(0),
        Mutex::<i32, UnlockPanics>::new(1),
        Mutex::<i32, parking_lot::RawMutex>::new(2),
    ));
    // make member 2 busy so that try_lock fails there and rolls back 0 and 1
    let busy = unsafe { &*(&c as *const OwnedLockCollection<(Mutex<i32, Counting>, Mutex<i32, UnlockPanics>, Mutex<i32, parking_lot::RawMutex>)>) };
    let _ = busy;
    let mut c = c;
    unsafe { c.child_mut().2.raw() }.lock();
    let r = catch_unwind(AssertUnwindSafe(|| {
        let key = ThreadKey::get().unwrap();
        let _ = c.try_lock(key);
    }));
    assert!(r.is_err());
    let n = UNLOCKS.load(Relaxed);
    if n != 1 {
        println!("BUG: member 0 was locked once but released {n} times");
        std::process::exit(1);
    }
    println!("ok: member 0 released exactly once");
}
