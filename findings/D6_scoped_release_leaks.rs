// D6 (C12 R2): the collection-level release loop of every scoped_* call is a plain `for`;
// when the release of member k panics, members k+1.. stay locked forever.
use d456::UnlockPanics;
use happylock::collection::OwnedLockCollection;
use happylock::mutex::Mutex;
use happylock::ThreadKey;
use lock_api::RawMutex;
use std::panic::{catch_unwind, AssertUnwindSafe};
fn main() {
    let c = OwnedLockCollection::new((
        Mutex::<i32, UnlockPanics>::new(1),
        Mutex::<i32, parking_lot::RawMutex>::new(2),
    ));
    let r = catch_unwind(AssertUnwindSafe(|| {
        let key = ThreadKey::get().unwrap();
        c.scoped_lock(key, |_| ());
    }));
    assert!(r.is_err(), "the panic must reach the caller");
    let (_, healthy) = c.into_child();
    let still_locked = unsafe { healthy.raw() }.is_locked();
    if still_locked {
        println!("BUG: the healthy second mutex is still locked after the scoped call unwound");
        std::process::exit(1);
    }
    println!("ok: healthy mutex released");
}
