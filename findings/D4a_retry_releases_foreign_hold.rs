// D4a (C12 R3): RetryingLockCollection's unwind handler releases locks[first_index] even when
// the blocking acquisition of that very lock is what panicked, i.e. a lock the caller never
// held - here a lock that ANOTHER thread is holding.
use d456::LockPanics;
use happylock::collection::RetryingLockCollection;
use happylock::mutex::Mutex;
use happylock::ThreadKey;
use lock_api::RawMutex;
use std::panic::{catch_unwind, AssertUnwindSafe};
fn main() {
    let evil = Mutex::<i32, LockPanics>::new(1);
    let other = Mutex::<i32, parking_lot::RawMutex>::new(2);
    let key = ThreadKey::get().unwrap();
    let guard = evil.try_lock(key).ok().expect("main thread takes the lock"); // main holds `evil`
    assert!(unsafe { evil.raw() }.is_locked());
    std::thread::scope(|s| {
        s.spawn(|| {
            let r = catch_unwind(AssertUnwindSafe(|| {
                let key = ThreadKey::get().unwrap();
                let c = RetryingLockCollection::try_new((&evil, &other)).unwrap();
                let _g = c.lock(key); // blocks on `evil` first: lock() panics
            }));
            assert!(r.is_err());
        });
    });
    let locked = unsafe { evil.raw() }.is_locked();
    if !locked {
        println!("BUG: the main thread's guard is alive but its mutex was unlocked by another thread's failed acquisition");
        std::process::exit(1);
    }
    println!("ok: foreign hold untouched");
    drop(guard);
}
