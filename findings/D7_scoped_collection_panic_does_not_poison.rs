// D7 (C10): a panic inside a scoped closure of a collection that contains a Poisonable leaves
// it unpoisoned, while the same panic under the collection's guard poisons it.
use happylock::collection::{BoxedLockCollection, OwnedLockCollection, RefLockCollection, RetryingLockCollection};
use happylock::{Mutex, Poisonable, ThreadKey};
use std::panic::{catch_unwind, AssertUnwindSafe};

fn main() {
    let mut bad = 0;
    // guard path (reference behaviour): poisons
    {
        let c = BoxedLockCollection::new((Poisonable::new(Mutex::new(1)), Mutex::new(2)));
        let _ = catch_unwind(AssertUnwindSafe(|| {
            let key = ThreadKey::get().unwrap();
            let _g = c.lock(key);
            panic!("boom");
        }));
        println!("boxed guard path: poisoned={}", c.child().0.is_poisoned());
        assert!(c.child().0.is_poisoned());
    }
    macro_rules! scoped_case {
        ($name:expr, $c:expr, $child:expr) => {{
            let c = $c;
            let _ = catch_unwind(AssertUnwindSafe(|| {
                let key = ThreadKey::get().unwrap();
                c.scoped_lock(key, |_| panic!("boom"));
            }));
            let p = $child(&c);
            println!("{} scoped path: poisoned={}", $name, p);
            if !p { bad += 1; }
        }};
    }
    scoped_case!("boxed", BoxedLockCollection::new((Poisonable::new(Mutex::new(1)), Mutex::new(2))), |c: &BoxedLockCollection<(Poisonable<Mutex<i32>>, Mutex<i32>)>| c.child().0.is_poisoned());
    scoped_case!("retrying", RetryingLockCollection::new((Poisonable::new(Mutex::new(1)), Mutex::new(2))), |c: &RetryingLockCollection<(Poisonable<Mutex<i32>>, Mutex<i32>)>| c.child().0.is_poisoned());
    {
        let data = (Poisonable::new(Mutex::new(1)), Mutex::new(2));
        let c = RefLockCollection::new(&data);
        let _ = catch_unwind(AssertUnwindSafe(|| {
            let key = ThreadKey::get().unwrap();
            c.scoped_lock(key, |_| panic!("boom"));
        }));
        println!("ref scoped path: poisoned={}", data.0.is_poisoned());
        if !data.0.is_poisoned() { bad += 1; }
    }
    {
        let mut c = OwnedLockCollection::new((Poisonable::new(Mutex::new(1)), Mutex::new(2)));
        let _ = catch_unwind(AssertUnwindSafe(|| {
            let key = ThreadKey::get().unwrap();
            c.scoped_lock(key, |_| panic!("boom"));
        }));
        let p = c.child_mut().0.is_poisoned();
        println!("owned scoped path: poisoned={}", p);
        if !p { bad += 1; }
    }
    if bad > 0 { println!("BUG: {bad} collection kinds leave a contained Poisonable unpoisoned after a panic in scoped_lock"); std::process::exit(1) }
}
