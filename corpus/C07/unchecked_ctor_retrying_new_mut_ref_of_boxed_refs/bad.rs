#![allow(unused)]
use happylock::collection::{BoxedLockCollection, OwnedLockCollection, RefLockCollection, RetryingLockCollection};
use happylock::{LockCollection, Mutex, Poisonable, RwLock, ThreadKey};
fn main() {
    let a = Mutex::new(0);
    let mut inner = BoxedLockCollection::try_new([&a]).unwrap(); let c = RetryingLockCollection::new((&mut inner, Mutex::new(3))); //~ERR
    let g = c.lock(ThreadKey::get().unwrap());
    drop(g);
}
