#![allow(unused)]
use happylock::collection::{BoxedLockCollection, OwnedLockCollection, RefLockCollection, RetryingLockCollection};
use happylock::{LockCollection, Mutex, Poisonable, RwLock, ThreadKey};
fn main() {
    let a = Mutex::new(0);
    let d = [Mutex::new(1), Mutex::new(2)]; let c = RetryingLockCollection::new_ref(&d);
    let g = c.lock(ThreadKey::get().unwrap());
    drop(g);
}
