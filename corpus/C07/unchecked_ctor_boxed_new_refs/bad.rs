#![allow(unused)]
use happylock::collection::{BoxedLockCollection, OwnedLockCollection, RefLockCollection, RetryingLockCollection};
use happylock::{LockCollection, Mutex, Poisonable, RwLock, ThreadKey};
fn main() {
    let a = Mutex::new(0);
    let c = BoxedLockCollection::new((&a, &a)); //~ERR
    let g = c.lock(ThreadKey::get().unwrap());
    drop(g);
}
