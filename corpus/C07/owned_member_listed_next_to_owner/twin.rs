#![allow(unused)]
use happylock::collection::{BoxedLockCollection, OwnedLockCollection, RefLockCollection, RetryingLockCollection};
use happylock::{LockCollection, Mutex, Poisonable, RwLock, ThreadKey};
fn main() {
    let owned = OwnedLockCollection::new([Mutex::new(1), Mutex::new(2)]);
    let c = BoxedLockCollection::try_new((&owned, &owned)); assert!(c.is_none());
}
