#![allow(unused)]
use happylock::collection::{BoxedLockCollection, OwnedLockCollection, RefLockCollection, RetryingLockCollection};
use happylock::{LockCollection, Mutex, Poisonable, RwLock, ThreadKey};
fn main() {
    let owned = OwnedLockCollection::new([Mutex::new(1), Mutex::new(2)]);
    let member = owned.iter().nth(1).unwrap(); let c = BoxedLockCollection::try_new((&owned, member)); if c.is_some() { println!("WITNESS: a lock reachable twice (through its owned collection and directly) was accepted"); std::process::exit(1); } //~ERR
}
