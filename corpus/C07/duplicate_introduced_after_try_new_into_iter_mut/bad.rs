#![allow(unused)]
use happylock::collection::{BoxedLockCollection, OwnedLockCollection, RefLockCollection, RetryingLockCollection};
use happylock::{LockCollection, Mutex, Poisonable, RwLock, ThreadKey};
fn main() {
    let (tx, rx) = std::sync::mpsc::channel();
    std::thread::spawn(move || {
        let a = Mutex::new(1);
        let b = Mutex::new(2);
        let mut c = RetryingLockCollection::try_new(vec![&a, &b]).expect("duplicate-free");
        for slot in &mut c { *slot = &a; } //~ERR
        let g = c.lock(ThreadKey::get().unwrap());
        tx.send(g.len()).unwrap();
    });
    if rx.recv_timeout(std::time::Duration::from_secs(3)).is_err() {
        println!("WITNESS: lock() on a collection validated by try_new never returns after safe code made it list one lock twice (single thread)");
        std::process::exit(1);
    }
}
