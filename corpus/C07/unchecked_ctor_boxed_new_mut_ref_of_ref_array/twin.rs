#![allow(unused)]
use happylock::collection::{BoxedLockCollection, OwnedLockCollection, RefLockCollection, RetryingLockCollection};
use happylock::{LockCollection, Mutex, Poisonable, RwLock, ThreadKey};
fn main() {
    let a = Mutex::new(0);
    let mut d = [Mutex::new(1), Mutex::new(2)]; let c = BoxedLockCollection::new(&mut d);
    let g = c.lock(ThreadKey::get().unwrap());
    drop(g);
}
