#![allow(unused)]
use happylock::collection::{BoxedLockCollection, OwnedLockCollection, RefLockCollection, RetryingLockCollection};
use happylock::{LockCollection, Mutex, Poisonable, RwLock, ThreadKey};
fn main() {
    let a = Mutex::new(0);
    let mut d = [&a, &a]; let c = BoxedLockCollection::new(&mut d); //~ERR
    let g = c.lock(ThreadKey::get().unwrap());
    drop(g);
}
