#![allow(unused)]
use happylock::collection::{BoxedLockCollection, OwnedLockCollection, RefLockCollection, RetryingLockCollection};
use happylock::{LockCollection, Mutex, Poisonable, RwLock, ThreadKey};
fn main() {
    let a = Mutex::new(0);
    let c: OwnedLockCollection<Vec<Mutex<i32>>> = vec![Mutex::new(1), Mutex::new(2)].into_iter().collect();
    let g = c.lock(ThreadKey::get().unwrap());
    drop(g);
}
