#![allow(unused)]
use happylock::collection::{BoxedLockCollection, OwnedLockCollection, RefLockCollection, RetryingLockCollection};
use happylock::{LockCollection, Mutex, Poisonable, RwLock, ThreadKey};
fn main() {
    let a = Mutex::new(0);
    let inner = RefLockCollection::try_new(&a).unwrap(); let c = BoxedLockCollection::new((inner, &a)); //~ERR
    let g = c.lock(ThreadKey::get().unwrap());
    drop(g);
}
