#![allow(unused)]
use happylock::collection::{BoxedLockCollection, OwnedLockCollection, RefLockCollection, RetryingLockCollection};
use happylock::{LockCollection, Mutex, Poisonable, RwLock, ThreadKey};
fn main() {
    let a = Mutex::new(0);
    let data = (Mutex::new(1), Mutex::new(2)); let c = BoxedLockCollection::new((RefLockCollection::new(&data), RefLockCollection::new(&data))); //~ERR
    let g = c.lock(ThreadKey::get().unwrap());
    drop(g);
}
