#![allow(unused)]
use happylock::collection::{BoxedLockCollection, OwnedLockCollection, RefLockCollection, RetryingLockCollection};
use happylock::{LockCollection, Mutex, Poisonable, RwLock, ThreadKey};
fn main() {
    let a = Mutex::new(0);
    let c = BoxedLockCollection::new((OwnedLockCollection::new((Mutex::new(1), Mutex::new(2))), OwnedLockCollection::new((Mutex::new(3),))));
    let g = c.lock(ThreadKey::get().unwrap());
    drop(g);
}
