#![allow(unused)]
use happylock::collection::{BoxedLockCollection, OwnedLockCollection, RefLockCollection, RetryingLockCollection};
use happylock::{LockCollection, Mutex, Poisonable, RwLock, ThreadKey};
fn main() {
    let a = Mutex::new(0);
    let (mut r1, mut r2) = (Mutex::new(1), Mutex::new(2)); let c = BoxedLockCollection::new((&mut r1, &mut r2));
    let g = c.lock(ThreadKey::get().unwrap());
    drop(g);
}
