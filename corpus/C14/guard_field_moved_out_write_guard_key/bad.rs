#![allow(unused)]
use happylock::collection::{BoxedLockCollection, OwnedLockCollection, RefLockCollection, RetryingLockCollection};
use happylock::{LockCollection, Mutex, Poisonable, RwLock, ThreadKey};
fn main() {
    let m = RwLock::new(0); let g = m.write(ThreadKey::get().unwrap());
    let stolen = g.thread_key; //~ERR
    if ThreadKey::get().is_some() {
        println!("WITNESS: the guard was taken apart: the key is obtainable again while the lock is still held");
        std::process::exit(1);
    }
}
