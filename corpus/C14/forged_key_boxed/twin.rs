#![allow(unused)]
use happylock::collection::{BoxedLockCollection, OwnedLockCollection, RefLockCollection, RetryingLockCollection};
use happylock::{LockCollection, Mutex, Poisonable, RwLock, ThreadKey};
fn main() {
    let a = Mutex::new(0);
    let key = Box::new(ThreadKey::get().unwrap());
    a.scoped_lock(*key, |x| *x += 1);
}
