#![allow(unused)]
use happylock::collection::{BoxedLockCollection, OwnedLockCollection, RefLockCollection, RetryingLockCollection};
use happylock::{LockCollection, Mutex, Poisonable, RwLock, ThreadKey};
fn main() {
    let key = ThreadKey::get().unwrap();
    let m = BoxedLockCollection::new((RwLock::new(1),));
    let mut key = key; let g = m.lock(&mut key); let free_key = true; //~ERR
    if free_key {
        println!("WITNESS: boxed::lock accepted `&mut key` in the key position: the hold exists while the thread still has a usable key");
        std::process::exit(1);
    }
}
