#![allow(unused)]
use happylock::collection::{BoxedLockCollection, OwnedLockCollection, RefLockCollection, RetryingLockCollection};
use happylock::{LockCollection, Mutex, Poisonable, RwLock, ThreadKey};
use std::marker::PhantomData;
fn main() {
    let k = ThreadKey::get().unwrap();
}
