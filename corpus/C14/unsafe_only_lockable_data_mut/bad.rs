#![allow(unused)]
use happylock::collection::{BoxedLockCollection, OwnedLockCollection, RefLockCollection, RetryingLockCollection};
use happylock::{LockCollection, Mutex, Poisonable, RwLock, ThreadKey};
fn main() {
    use happylock::lockable::Lockable; let m = Mutex::new(1);
    let g = m.data_mut(); //~ERR
}
