#![allow(unused)]
use happylock::collection::{BoxedLockCollection, OwnedLockCollection, RefLockCollection, RetryingLockCollection};
use happylock::{LockCollection, Mutex, Poisonable, RwLock, ThreadKey};
fn main() {
    let k = std::thread::spawn(|| ThreadKey::get().is_some()).join().unwrap(); assert!(k);
}
