#![allow(unused)]
use happylock::collection::{BoxedLockCollection, OwnedLockCollection, RefLockCollection, RetryingLockCollection};
use happylock::{LockCollection, Mutex, Poisonable, RwLock, ThreadKey};
fn main() {
    let locks: Box<[RwLock<i32>]> = vec![RwLock::new(0), RwLock::new(1)].into_boxed_slice();
    let c = RetryingLockCollection::new(locks);
    let mut g = c.read(ThreadKey::get().unwrap());
    let stolen = std::mem::replace(&mut *g, Box::new([])); //~ERR
    drop(g);
    if let Some(key) = ThreadKey::get() {
        let writable = c.try_lock(key).is_ok();
        if !writable && !stolen.is_empty() {
            println!("WITNESS: the thread got its key back while still holding {} live read guards", stolen.len());
            std::process::exit(1);
        }
    }
}
