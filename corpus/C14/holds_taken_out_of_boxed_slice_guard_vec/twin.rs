#![allow(unused)]
use happylock::collection::{BoxedLockCollection, OwnedLockCollection, RefLockCollection, RetryingLockCollection};
use happylock::{LockCollection, Mutex, Poisonable, RwLock, ThreadKey};
fn main() {
    let locks = vec![Mutex::new(0), Mutex::new(1)];
    let c = LockCollection::new(locks);
    let mut g = c.lock(ThreadKey::get().unwrap());
    let stolen: Vec<i32> = g.iter().map(|x| **x).collect();
    drop(g); // hands the key back to the thread ...
    let key = ThreadKey::get();
    if let Some(key) = key {
        // ... while `stolen` still holds every lock of the collection
        let free = c.try_lock(key).is_ok();
        if !free && !stolen.is_empty() {
            println!("WITNESS: the thread got its key back while still holding {} live lock guards", stolen.len());
            std::process::exit(1);
        }
    }
}
