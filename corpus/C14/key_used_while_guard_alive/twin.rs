#![allow(unused)]
use happylock::collection::{BoxedLockCollection, OwnedLockCollection, RefLockCollection, RetryingLockCollection};
use happylock::{LockCollection, Mutex, Poisonable, RwLock, ThreadKey};
fn main() {
    let a = Mutex::new(0);
    let b = RwLock::new(0);
    let key = ThreadKey::get().unwrap();
    let ga = a.lock(key);
    
    drop(ga);
}
