#![allow(unused)]
use happylock::collection::{BoxedLockCollection, OwnedLockCollection, RefLockCollection, RetryingLockCollection};
use happylock::{LockCollection, Mutex, Poisonable, RwLock, ThreadKey};
fn main() {
    let m = Mutex::new(0);
    let mut key = ThreadKey::get().unwrap();
    let g = m.lock(&mut key); //~ERR
}
