#![allow(unused)]
use happylock::collection::{BoxedLockCollection, OwnedLockCollection, RefLockCollection, RetryingLockCollection};
use happylock::{LockCollection, Mutex, Poisonable, RwLock, ThreadKey};
fn main() {
    let key = ThreadKey::get().unwrap();
    let m = RwLock::new(1);
    let free_key = m.scoped_try_write(key, |_| ThreadKey::get().is_some()).ok().unwrap_or(false);
    if free_key {
        println!("WITNESS: rwlock::scoped_try_write accepted `&key` in the key position: the hold exists while the thread still has a usable key");
        std::process::exit(1);
    }
}
