#![allow(unused)]
use happylock::collection::{BoxedLockCollection, OwnedLockCollection, RefLockCollection, RetryingLockCollection};
use happylock::{LockCollection, Mutex, Poisonable, RwLock, ThreadKey};
fn main() {
    let m = Mutex::new(1);
    let r = unsafe { m.raw() };
}
