#![allow(unused)]
use happylock::collection::{BoxedLockCollection, OwnedLockCollection, RefLockCollection, RetryingLockCollection};
use happylock::{LockCollection, Mutex, Poisonable, RwLock, ThreadKey};
fn main() {
    use happylock::lockable::RawLock; let m = RwLock::new(1);
    let g = m.try_read(ThreadKey::get().unwrap());
}
