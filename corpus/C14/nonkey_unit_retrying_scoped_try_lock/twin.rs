#![allow(unused)]
use happylock::collection::{BoxedLockCollection, OwnedLockCollection, RefLockCollection, RetryingLockCollection};
use happylock::{LockCollection, Mutex, Poisonable, RwLock, ThreadKey};
fn main() {
    let key = ThreadKey::get().unwrap();
    let m = RetryingLockCollection::new((RwLock::new(1),));
    let free_key = m.scoped_try_lock(key, |_| ThreadKey::get().is_some()).ok().unwrap_or(false);
    if free_key {
        println!("WITNESS: retrying::scoped_try_lock accepted `()` in the key position: the hold exists while the thread still has a usable key");
        std::process::exit(1);
    }
}
