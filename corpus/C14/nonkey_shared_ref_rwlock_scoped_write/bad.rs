#![allow(unused)]
use happylock::collection::{BoxedLockCollection, OwnedLockCollection, RefLockCollection, RetryingLockCollection};
use happylock::{LockCollection, Mutex, Poisonable, RwLock, ThreadKey};
fn main() {
    let key = ThreadKey::get().unwrap();
    let m = RwLock::new(1);
    let free_key = m.scoped_write(&key, |_| true); //~ERR
    if free_key {
        println!("WITNESS: rwlock::scoped_write accepted `&key` in the key position: the hold exists while the thread still has a usable key");
        std::process::exit(1);
    }
}
