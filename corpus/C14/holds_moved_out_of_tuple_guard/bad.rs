#![allow(unused)]
use happylock::collection::{BoxedLockCollection, OwnedLockCollection, RefLockCollection, RetryingLockCollection};
use happylock::{LockCollection, Mutex, Poisonable, RwLock, ThreadKey};
fn main() {
    let m = LockCollection::new((Mutex::new(0), Mutex::new(1)));
    let mut g = m.lock(ThreadKey::get().unwrap());
    let stolen = g.0; //~ERR
}
