#![allow(unused)]
use happylock::collection::{BoxedLockCollection, OwnedLockCollection, RefLockCollection, RetryingLockCollection};
use happylock::{LockCollection, Mutex, Poisonable, RwLock, ThreadKey};
fn main() {
    let a = Mutex::new(1);
    let c = BoxedLockCollection::try_new((&a, &a)); assert!(c.is_none());
}
