#![allow(unused)]
use happylock::collection::{BoxedLockCollection, OwnedLockCollection, RefLockCollection, RetryingLockCollection};
use happylock::{LockCollection, Mutex, Poisonable, RwLock, ThreadKey};
fn main() {
    let key = ThreadKey::get().unwrap();
    let m = BoxedLockCollection::new((RwLock::new(1),));
    let g = m.try_lock(key); let free_key = ThreadKey::get().is_some();
    if free_key {
        println!("WITNESS: boxed::try_lock accepted `&mut key` in the key position: the hold exists while the thread still has a usable key");
        std::process::exit(1);
    }
}
