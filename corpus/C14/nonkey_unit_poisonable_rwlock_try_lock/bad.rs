#![allow(unused)]
use happylock::collection::{BoxedLockCollection, OwnedLockCollection, RefLockCollection, RetryingLockCollection};
use happylock::{LockCollection, Mutex, Poisonable, RwLock, ThreadKey};
fn main() {
    let key = ThreadKey::get().unwrap();
    let m = Poisonable::new(RwLock::new(1));
    drop(key); let g = m.try_lock(()); let free_key = ThreadKey::get().is_some(); //~ERR
    if free_key {
        println!("WITNESS: poisonable_rwlock::try_lock accepted `()` in the key position: the hold exists while the thread still has a usable key");
        std::process::exit(1);
    }
}
