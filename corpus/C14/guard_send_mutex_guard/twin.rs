#![allow(unused)]
use happylock::collection::{BoxedLockCollection, OwnedLockCollection, RefLockCollection, RetryingLockCollection};
use happylock::{LockCollection, Mutex, Poisonable, RwLock, ThreadKey};
fn main() {
    let key = ThreadKey::get().unwrap();
    let m = Mutex::new(0); let g = m.lock(key);
    std::thread::scope(|s| {
        drop(g);
    });
}
