#![allow(unused)]
use happylock::collection::{BoxedLockCollection, OwnedLockCollection, RefLockCollection, RetryingLockCollection};
use happylock::{LockCollection, Mutex, Poisonable, RwLock, ThreadKey};
use std::sync::OnceLock;
static KEY: OnceLock<u32> = OnceLock::new();
fn main() {
    let _ = ThreadKey::get().unwrap();
}
