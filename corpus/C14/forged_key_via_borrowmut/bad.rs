#![allow(unused)]
use happylock::collection::{BoxedLockCollection, OwnedLockCollection, RefLockCollection, RetryingLockCollection};
use happylock::{LockCollection, Mutex, Poisonable, RwLock, ThreadKey};
use std::borrow::{Borrow, BorrowMut};
#[derive(Clone, Copy)]
struct Forged;
impl Borrow<ThreadKey> for Forged { fn borrow(&self) -> &ThreadKey { loop {} } }
impl BorrowMut<ThreadKey> for Forged { fn borrow_mut(&mut self) -> &mut ThreadKey { loop {} } }
fn main() {
    let a = Mutex::new(0);
    let b = Mutex::new(0);
    let mut key = ThreadKey::get().unwrap();
    a.scoped_lock(&mut key, |x| {
        b.scoped_lock(Forged, |y| *y += *x); //~ERR
    });
    println!("WITNESS: a forged, copyable key was accepted by scoped_lock while the real key was lent out");
    std::process::exit(1);
}
