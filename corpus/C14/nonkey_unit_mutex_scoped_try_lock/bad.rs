#![allow(unused)]
use happylock::collection::{BoxedLockCollection, OwnedLockCollection, RefLockCollection, RetryingLockCollection};
use happylock::{LockCollection, Mutex, Poisonable, RwLock, ThreadKey};
fn main() {
    let key = ThreadKey::get().unwrap();
    let m = Mutex::new(1);
    drop(key); let free_key = m.scoped_try_lock((), |_| ThreadKey::get().is_some()).ok().unwrap_or(false); //~ERR
    if free_key {
        println!("WITNESS: mutex::scoped_try_lock accepted `()` in the key position: the hold exists while the thread still has a usable key");
        std::process::exit(1);
    }
}
