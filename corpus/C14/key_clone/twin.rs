#![allow(unused)]
use happylock::collection::{BoxedLockCollection, OwnedLockCollection, RefLockCollection, RetryingLockCollection};
use happylock::{LockCollection, Mutex, Poisonable, RwLock, ThreadKey};
fn main() {
    let key = ThreadKey::get().unwrap();
    let k2 = key;
}
