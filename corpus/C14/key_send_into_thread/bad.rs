#![allow(unused)]
use happylock::collection::{BoxedLockCollection, OwnedLockCollection, RefLockCollection, RetryingLockCollection};
use happylock::{LockCollection, Mutex, Poisonable, RwLock, ThreadKey};
fn main() {
    let m = Mutex::new(0);
    let key = ThreadKey::get().unwrap();
    std::thread::spawn(move || { let k = key; drop(k); }).join().unwrap(); //~ERR
}
