#![allow(unused)]
use happylock::collection::{BoxedLockCollection, OwnedLockCollection, RefLockCollection, RetryingLockCollection};
use happylock::{LockCollection, Mutex, Poisonable, RwLock, ThreadKey};
fn main() {
    let key = ThreadKey::get().unwrap();
    let m = Poisonable::new(Mutex::new(0)); let g = m.lock(key).unwrap();
    std::thread::scope(|s| {
        drop(g);
    });
}
