#![allow(unused)]
use happylock::collection::{BoxedLockCollection, OwnedLockCollection, RefLockCollection, RetryingLockCollection};
use happylock::{LockCollection, Mutex, Poisonable, RwLock, ThreadKey};
fn main() {
    let (tx, rx) = std::sync::mpsc::channel::<ThreadKey>();
    let key = ThreadKey::get().unwrap();
    tx.send(key).unwrap(); let back = rx.recv().unwrap(); drop(back);
}
