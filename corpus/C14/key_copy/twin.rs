#![allow(unused)]
use happylock::collection::{BoxedLockCollection, OwnedLockCollection, RefLockCollection, RetryingLockCollection};
use happylock::{LockCollection, Mutex, Poisonable, RwLock, ThreadKey};
fn main() {
    let m = Mutex::new(0);
    let n = Mutex::new(0);
    let key = ThreadKey::get().unwrap();
    let g1 = m.lock(key);
    let key = Mutex::unlock(g1); let g2 = n.lock(key);
}
