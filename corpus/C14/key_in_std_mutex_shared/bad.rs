#![allow(unused)]
use happylock::collection::{BoxedLockCollection, OwnedLockCollection, RefLockCollection, RetryingLockCollection};
use happylock::{LockCollection, Mutex, Poisonable, RwLock, ThreadKey};
use std::sync::Arc;
fn main() {
    let shared = Arc::new(std::sync::Mutex::new(ThreadKey::get()));
    let s2 = shared.clone();
    std::thread::spawn(move || { let _k = s2.lock().unwrap().take(); }).join().unwrap(); //~ERR
}
