#![allow(unused)]
use happylock::collection::{BoxedLockCollection, OwnedLockCollection, RefLockCollection, RetryingLockCollection};
use happylock::{LockCollection, Mutex, Poisonable, RwLock, ThreadKey};
fn main() {
    let a = Mutex::new(1); let d = (&a, &a);
    let c = RefLockCollection::new_unchecked(&d); //~ERR
}
