#![allow(unused)]
use happylock::collection::{BoxedLockCollection, OwnedLockCollection, RefLockCollection, RetryingLockCollection};
use happylock::{LockCollection, Mutex, Poisonable, RwLock, ThreadKey};
fn main() {
    let a = Mutex::new(1); let d = (&a, &a);
    let c = RefLockCollection::try_new(&d); assert!(c.is_none());
}
