#![allow(unused)]
use happylock::collection::{BoxedLockCollection, OwnedLockCollection, RefLockCollection, RetryingLockCollection};
use happylock::{LockCollection, Mutex, Poisonable, RwLock, ThreadKey};
fn main() {
    let key = ThreadKey::get().unwrap();
    let m = RetryingLockCollection::new([RwLock::new(0), RwLock::new(0)]); let g = m.read(key);
    std::thread::scope(|s| {
        s.spawn(move || drop(g)); //~ERR
    });
}
