#![allow(unused)]
use happylock::collection::{BoxedLockCollection, OwnedLockCollection, RefLockCollection, RetryingLockCollection};
use happylock::{LockCollection, Mutex, Poisonable, RwLock, ThreadKey};
fn main() {
    let k: ThreadKey = ThreadKey::default(); //~ERR
}
