#![allow(unused)]
use happylock::collection::{BoxedLockCollection, OwnedLockCollection, RefLockCollection, RetryingLockCollection};
use happylock::{LockCollection, Mutex, Poisonable, RwLock, ThreadKey};
use happylock::rwlock::RwLockReadRef;
fn main() {
    let c = LockCollection::new((RwLock::new(1), RwLock::new(2)));
    let g = c.read(ThreadKey::get().unwrap());
    let kept = <RwLockReadRef<'_, _, _> as Clone>::clone(&g.0); //~ERR
    let key = LockCollection::<(RwLock<i32>, RwLock<i32>)>::unlock_read(g);
    if c.try_lock(key).is_err() {
        println!("WITNESS: the key came back while a cloned read hold is still alive");
        std::process::exit(1);
    }
}
