#![allow(unused)]
use happylock::collection::{BoxedLockCollection, OwnedLockCollection, RefLockCollection, RetryingLockCollection};
use happylock::{LockCollection, Mutex, Poisonable, RwLock, ThreadKey};
fn main() {
    let c = LockCollection::new((Mutex::new(0), RwLock::new(1)));
    let mut key = ThreadKey::get().unwrap();
    let g = c.lock(key);
}
