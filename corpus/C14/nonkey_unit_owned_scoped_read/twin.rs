#![allow(unused)]
use happylock::collection::{BoxedLockCollection, OwnedLockCollection, RefLockCollection, RetryingLockCollection};
use happylock::{LockCollection, Mutex, Poisonable, RwLock, ThreadKey};
fn main() {
    let key = ThreadKey::get().unwrap();
    let m = OwnedLockCollection::new((RwLock::new(1),));
    let free_key = m.scoped_read(key, |_| ThreadKey::get().is_some());
    if free_key {
        println!("WITNESS: owned::scoped_read accepted `()` in the key position: the hold exists while the thread still has a usable key");
        std::process::exit(1);
    }
}
