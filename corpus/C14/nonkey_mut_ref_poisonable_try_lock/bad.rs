#![allow(unused)]
use happylock::collection::{BoxedLockCollection, OwnedLockCollection, RefLockCollection, RetryingLockCollection};
use happylock::{LockCollection, Mutex, Poisonable, RwLock, ThreadKey};
fn main() {
    let key = ThreadKey::get().unwrap();
    let m = Poisonable::new(Mutex::new(1));
    let mut key = key; let g = m.try_lock(&mut key); let free_key = true; //~ERR
    if free_key {
        println!("WITNESS: poisonable::try_lock accepted `&mut key` in the key position: the hold exists while the thread still has a usable key");
        std::process::exit(1);
    }
}
