#![allow(unused)]
use happylock::collection::{BoxedLockCollection, OwnedLockCollection, RefLockCollection, RetryingLockCollection};
use happylock::{LockCollection, Mutex, Poisonable, RwLock, ThreadKey};
fn main() {
    let m = Mutex::new(0);
    let mut key = ThreadKey::get().unwrap();
    m.scoped_lock(&mut key, |d| *d += 1);
}
