#![allow(unused)]
use happylock::collection::{BoxedLockCollection, OwnedLockCollection, RefLockCollection, RetryingLockCollection};
use happylock::{LockCollection, Mutex, Poisonable, RwLock, ThreadKey};
fn main() {
    let m = LockCollection::new((Mutex::new(0),));
    let g = m.lock(ThreadKey::get().unwrap());
    let k = g.key; //~ERR
}
