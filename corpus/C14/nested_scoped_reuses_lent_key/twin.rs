#![allow(unused)]
use happylock::collection::{BoxedLockCollection, OwnedLockCollection, RefLockCollection, RetryingLockCollection};
use happylock::{LockCollection, Mutex, Poisonable, RwLock, ThreadKey};
fn main() {
    let a = Mutex::new(0);
    let b = Mutex::new(0);
    let mut key = ThreadKey::get().unwrap();
    a.scoped_lock(&mut key, |x| {
        *x += 1;
    });
}
