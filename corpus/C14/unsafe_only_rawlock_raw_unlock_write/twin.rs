#![allow(unused)]
use happylock::collection::{BoxedLockCollection, OwnedLockCollection, RefLockCollection, RetryingLockCollection};
use happylock::{LockCollection, Mutex, Poisonable, RwLock, ThreadKey};
fn main() {
    use happylock::lockable::RawLock; let m = Mutex::new(1); let g = m.lock(ThreadKey::get().unwrap());
    drop(g);
}
