#![allow(unused)]
use happylock::collection::{BoxedLockCollection, OwnedLockCollection, RefLockCollection, RetryingLockCollection};
use happylock::{LockCollection, Mutex, Poisonable, RwLock, ThreadKey};
fn main() {
    let c = RetryingLockCollection::new(vec![RwLock::new(1), RwLock::new(2)].into_boxed_slice());
    let key = ThreadKey::get().unwrap();
    let g = c.lock(key);
    let holds: Vec<i32> = g.iter().map(|h| **h).collect();
    let free_key = ThreadKey::get().is_some();
    if free_key && !holds.is_empty() {
        println!("WITNESS: consuming the collection guard by value handed out {} live per-lock holds and gave the thread its key back", holds.len());
        std::process::exit(1);
    }
}
