#![allow(unused)]
use happylock::collection::{BoxedLockCollection, OwnedLockCollection, RefLockCollection, RetryingLockCollection};
use happylock::{LockCollection, Mutex, Poisonable, RwLock, ThreadKey};
fn main() {
    let mut key = ThreadKey::get().unwrap();
    let m = Poisonable::new(Mutex::new(1));
    let mut x = 0; let mut y = 0; let (a, b) = (&mut x, &mut y); m.scoped_try_lock(&mut key, |d| ()).ok().unwrap();
    let (pa, pb) = (a as *mut i32 as usize, b as *mut i32 as usize);
    if pa == pb {
        println!("WITNESS: two live &mut to the same protected value were obtained with no lock held");
        std::process::exit(1);
    }
}
