#![allow(unused)]
use happylock::collection::{BoxedLockCollection, OwnedLockCollection, RefLockCollection, RetryingLockCollection};
use happylock::{LockCollection, Mutex, Poisonable, RwLock, ThreadKey};
fn main() {
    let c = OwnedLockCollection::new(vec![Mutex::new(1), Mutex::new(2)]);
    let inner = &c.data; //~ERR
}
