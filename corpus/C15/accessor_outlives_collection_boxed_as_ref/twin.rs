#![allow(unused)]
use happylock::collection::{BoxedLockCollection, OwnedLockCollection, RefLockCollection, RetryingLockCollection};
use happylock::{LockCollection, Mutex, Poisonable, RwLock, ThreadKey};
fn main() {
    let key = ThreadKey::get().unwrap();
    let r = {
        let c = BoxedLockCollection::new(vec![Mutex::new(5)]);
        let _ = AsRef::<[Mutex<i32>]>::as_ref(&c); 5
    };
    let _ = r;
}
