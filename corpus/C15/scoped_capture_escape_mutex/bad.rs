#![allow(unused)]
use happylock::collection::{BoxedLockCollection, OwnedLockCollection, RefLockCollection, RetryingLockCollection};
use happylock::{LockCollection, Mutex, Poisonable, RwLock, ThreadKey};
fn main() {
    let mut key = ThreadKey::get().unwrap();
    let m = Mutex::new(1);
    let mut out: Option<&mut i32> = None;
    m.scoped_lock(&mut key, |d| { out = Some(d); }); //~ERR
    let a = out.unwrap();
    let g = m.lock(key);
    if std::ptr::eq(&*a, &*g) {
        println!("WITNESS: a &mut captured out of a scoped closure aliases the data of a live guard");
        std::process::exit(1);
    }
}
