#![allow(unused)]
use happylock::collection::{BoxedLockCollection, OwnedLockCollection, RefLockCollection, RetryingLockCollection};
use happylock::{LockCollection, Mutex, Poisonable, RwLock, ThreadKey};
use std::cell::Cell;
fn main() {
    let mut key = ThreadKey::get().unwrap();
    let m = RwLock::new(1);
    let out: Cell<Option<&mut i32>> = Cell::new(None);
    m.scoped_try_write(&mut key, |d| { *d += 1; }).ok().unwrap(); let mut z = 0; out.set(Some(&mut z));
    let a = out.take().unwrap() as *mut i32 as usize;
    let b = m.scoped_try_write(&mut key, |d| d as *mut i32 as usize).ok().unwrap();
    if a == b {
        println!("WITNESS: a &mut smuggled out of a scoped closure through a Cell still points at the protected value after the call");
        std::process::exit(1);
    }
}
