#![allow(unused)]
use happylock::collection::{BoxedLockCollection, OwnedLockCollection, RefLockCollection, RetryingLockCollection};
use happylock::{LockCollection, Mutex, Poisonable, RwLock, ThreadKey};
fn main() {
    let mut key = ThreadKey::get().unwrap();
    let m = RwLock::new(1);
    let v: i32 = m.scoped_try_read(&mut key, |d| *d).ok().unwrap(); let r = &v;
    m.scoped_write(&mut key, |d| *d += 1);
    if *r == 2 {
        println!("WITNESS: a shared reference obtained inside scoped_try_read is still alive across a write and observes it: {}", *r);
        std::process::exit(1);
    }
}
