#![allow(unused)]
use happylock::collection::{BoxedLockCollection, OwnedLockCollection, RefLockCollection, RetryingLockCollection};
use happylock::{LockCollection, Mutex, Poisonable, RwLock, ThreadKey};
fn main() {
    let key = ThreadKey::get().unwrap();
    let g = {
        let c = LockCollection::new((Mutex::new(5),));
        let v = *c.lock(key).0; v
    };
    let _ = g;
}
