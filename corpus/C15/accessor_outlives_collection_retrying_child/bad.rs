#![allow(unused)]
use happylock::collection::{BoxedLockCollection, OwnedLockCollection, RefLockCollection, RetryingLockCollection};
use happylock::{LockCollection, Mutex, Poisonable, RwLock, ThreadKey};
fn main() {
    let key = ThreadKey::get().unwrap();
    let r = {
        let c = RetryingLockCollection::new((Mutex::new(5),));
        c.child() //~ERR
    };
    let _ = r;
}
