#![allow(unused)]
use happylock::collection::{BoxedLockCollection, OwnedLockCollection, RefLockCollection, RetryingLockCollection};
use happylock::{LockCollection, Mutex, Poisonable, RwLock, ThreadKey};
fn main() {
    let key = ThreadKey::get().unwrap();
    let data = (Mutex::new(1), Mutex::new(2));
    let g = {
        let c = RefLockCollection::new(&data);
        let v = *c.lock(key).0; v
    };
    let _ = g;
}
