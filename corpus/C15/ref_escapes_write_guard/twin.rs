#![allow(unused)]
use happylock::collection::{BoxedLockCollection, OwnedLockCollection, RefLockCollection, RetryingLockCollection};
use happylock::{LockCollection, Mutex, Poisonable, RwLock, ThreadKey};
fn main() {
    let m = RwLock::new(5);
    let mut g = m.write(ThreadKey::get().unwrap());
    let r: &mut i32 = &mut *g;
    
    *r += 1;
}
