#![allow(unused)]
use happylock::collection::{BoxedLockCollection, OwnedLockCollection, RefLockCollection, RetryingLockCollection};
use happylock::{LockCollection, Mutex, Poisonable, RwLock, ThreadKey};
fn main() {
    let mut key = ThreadKey::get().unwrap();
    let m = RetryingLockCollection::new((RwLock::new(1),));
    let a: &mut i32 = m.scoped_try_lock(&mut key, |d| d.0).ok().unwrap(); let b: &mut i32 = m.scoped_try_lock(&mut key, |d| d.0).ok().unwrap(); //~ERR
    let (pa, pb) = (a as *mut i32 as usize, b as *mut i32 as usize);
    if pa == pb {
        println!("WITNESS: two live &mut to the same protected value were obtained with no lock held");
        std::process::exit(1);
    }
}
