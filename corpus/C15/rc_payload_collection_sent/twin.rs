#![allow(unused)]
use happylock::collection::{BoxedLockCollection, OwnedLockCollection, RefLockCollection, RetryingLockCollection};
use happylock::{LockCollection, Mutex, Poisonable, RwLock, ThreadKey};
use std::rc::Rc;
fn main() {
    let c = LockCollection::new((Mutex::new(Rc::new(1)),));
    let k = ThreadKey::get().unwrap(); let g = c.lock(k); let _c = Rc::clone(&g.0);
}
