#![allow(unused)]
use happylock::collection::{BoxedLockCollection, OwnedLockCollection, RefLockCollection, RetryingLockCollection};
use happylock::{LockCollection, Mutex, Poisonable, RwLock, ThreadKey};
fn main() {
    let mut key = ThreadKey::get().unwrap();
    let data = (RwLock::new(1),); let m = RefLockCollection::new(&data);
    let v: i32 = m.scoped_read(&mut key, |d| *d.0); let r = &v;
    m.scoped_lock(&mut key, |d| *d.0 += 1);
    if *r == 2 {
        println!("WITNESS: a shared reference obtained inside scoped_read is still alive across a write and observes it: {}", *r);
        std::process::exit(1);
    }
}
