#![allow(unused)]
use happylock::collection::{BoxedLockCollection, OwnedLockCollection, RefLockCollection, RetryingLockCollection};
use happylock::{LockCollection, Mutex, Poisonable, RwLock, ThreadKey};
use std::cell::Cell;
use std::sync::atomic::{AtomicUsize, Ordering::Relaxed};
static OTHER_THREADS: AtomicUsize = AtomicUsize::new(0);
fn main() {
    let m = RwLock::new(Cell::new(0u64));
    std::thread::scope(|s| {
        for _ in 0..2 {
            let k = ThreadKey::get().unwrap(); let g = m.read(k); for _ in 0..1000 { g.set(g.get() + 1); } drop(g);
        }
    });
    if OTHER_THREADS.load(Relaxed) >= 2 {
        println!("WITNESS: two threads mutated a Cell concurrently under read locks: {}", m.into_inner().get());
        std::process::exit(1);
    }
}
