#![allow(unused)]
use happylock::collection::{BoxedLockCollection, OwnedLockCollection, RefLockCollection, RetryingLockCollection};
use happylock::{LockCollection, Mutex, Poisonable, RwLock, ThreadKey};
use std::cell::Cell;
fn main() {
    let mut key = ThreadKey::get().unwrap();
    let m = RwLock::new(1);
    let out: Cell<Option<&i32>> = Cell::new(None);
    m.scoped_try_read(&mut key, |d| { let _ = *d; }).ok().unwrap(); let z = 1; out.set(Some(&z));
    let r = out.take().unwrap();
    m.scoped_write(&mut key, |d| *d += 1);
    if *r == 2 {
        println!("WITNESS: a shared reference smuggled out of scoped_try_read through a Cell is alive across a write and observes it");
        std::process::exit(1);
    }
}
