#![allow(unused)]
use happylock::collection::{BoxedLockCollection, OwnedLockCollection, RefLockCollection, RetryingLockCollection};
use happylock::{LockCollection, Mutex, Poisonable, RwLock, ThreadKey};
fn main() {
    let c = LockCollection::new((Mutex::new(5), RwLock::new(6)));
    let mut g = c.lock(ThreadKey::get().unwrap());
    let r: &mut i32 = &mut *g.0;
    let key = LockCollection::<(Mutex<i32>, RwLock<i32>)>::unlock(g); //~ERR
    *r += 1;
}
