#![allow(unused)]
use happylock::collection::{BoxedLockCollection, OwnedLockCollection, RefLockCollection, RetryingLockCollection};
use happylock::{LockCollection, Mutex, Poisonable, RwLock, ThreadKey};
fn main() {
    let key = ThreadKey::get().unwrap();
    let r = {
        let d = (Mutex::new(5),); let c = RefLockCollection::new(&d);
        c.child() //~ERR
    };
    let _ = r;
}
