#![allow(unused)]
use happylock::collection::{BoxedLockCollection, OwnedLockCollection, RefLockCollection, RetryingLockCollection};
use happylock::{LockCollection, Mutex, Poisonable, RwLock, ThreadKey};
fn main() {
    let key = ThreadKey::get().unwrap();
    let g = {
        let m = Mutex::new(5);
        m.lock(key) //~ERR
    };
    let _ = g;
}
