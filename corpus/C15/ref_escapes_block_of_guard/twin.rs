#![allow(unused)]
use happylock::collection::{BoxedLockCollection, OwnedLockCollection, RefLockCollection, RetryingLockCollection};
use happylock::{LockCollection, Mutex, Poisonable, RwLock, ThreadKey};
fn main() {
    let m = Mutex::new(5);
    let r: &i32 = {
        let g = m.lock(ThreadKey::get().unwrap());
        &5
    };
    println!("{}", r);
}
