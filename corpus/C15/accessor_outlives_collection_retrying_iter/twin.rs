#![allow(unused)]
use happylock::collection::{BoxedLockCollection, OwnedLockCollection, RefLockCollection, RetryingLockCollection};
use happylock::{LockCollection, Mutex, Poisonable, RwLock, ThreadKey};
fn main() {
    let key = ThreadKey::get().unwrap();
    let r = {
        let c = RetryingLockCollection::new(vec![Mutex::new(5)]);
        let _ = c.iter(); 5
    };
    let _ = r;
}
