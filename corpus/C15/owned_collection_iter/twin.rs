#![allow(unused)]
use happylock::collection::{BoxedLockCollection, OwnedLockCollection, RefLockCollection, RetryingLockCollection};
use happylock::{LockCollection, Mutex, Poisonable, RwLock, ThreadKey};
fn main() {
    let c = OwnedLockCollection::new(vec![Mutex::new(1), Mutex::new(2)]);
    for m in c.into_iter() { let _ = m; }
}
