#![allow(unused)]
use happylock::collection::{BoxedLockCollection, OwnedLockCollection, RefLockCollection, RetryingLockCollection};
use happylock::{LockCollection, Mutex, Poisonable, RwLock, ThreadKey};
use std::rc::Rc;
fn main() {
    let m = Mutex::new(Rc::new(1));
    std::thread::scope(|s| {
        s.spawn(|| { let k = ThreadKey::get().unwrap(); let g = m.lock(k); let _c = Rc::clone(&g); }); //~ERR
    });
}
