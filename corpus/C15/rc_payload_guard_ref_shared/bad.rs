#![allow(unused)]
use happylock::collection::{BoxedLockCollection, OwnedLockCollection, RefLockCollection, RetryingLockCollection};
use happylock::{LockCollection, Mutex, Poisonable, RwLock, ThreadKey};
use std::rc::Rc;
fn main() {
    let m = Mutex::new(Rc::new(1));
    let g = m.lock(ThreadKey::get().unwrap());
    std::thread::scope(|s| {
        s.spawn(|| { let _c = Rc::clone(&g); }); //~ERR
    });
}
