#![allow(unused)]
use happylock::collection::{BoxedLockCollection, OwnedLockCollection, RefLockCollection, RetryingLockCollection};
use happylock::{LockCollection, Mutex, Poisonable, RwLock, ThreadKey};
fn main() {
    let key = ThreadKey::get().unwrap();
    let r = {
        let c = BoxedLockCollection::new((Mutex::new(5),));
        let _ = c.child(); 5
    };
    let _ = r;
}
