#![allow(unused)]
use happylock::collection::{BoxedLockCollection, OwnedLockCollection, RefLockCollection, RetryingLockCollection};
use happylock::{LockCollection, Mutex, Poisonable, RwLock, ThreadKey};
use std::cell::Cell;
use std::sync::atomic::{AtomicUsize, Ordering::Relaxed};
static OTHER_THREADS: AtomicUsize = AtomicUsize::new(0);
fn main() {
    let data = (RwLock::new(Cell::new(0u64)),);
    let c = RefLockCollection::new(&data);
    std::thread::scope(|s| {
        s.spawn(move || { OTHER_THREADS.fetch_add(1, Relaxed); let k = ThreadKey::get().unwrap(); let g = c.read(k); for _ in 0..1000 { g.0.set(g.0.get() + 1); } }); //~ERR
        let k = ThreadKey::get().unwrap();
        let g = data.0.read(k);
        for _ in 0..1000 { g.set(g.get() + 1); }
    });
    if OTHER_THREADS.load(Relaxed) >= 1 {
        println!("WITNESS: a Cell was mutated from two threads under read locks: {}", data.0.into_inner().get());
        std::process::exit(1);
    }
}
