#![allow(unused)]
use happylock::collection::{BoxedLockCollection, OwnedLockCollection, RefLockCollection, RetryingLockCollection};
use happylock::{LockCollection, Mutex, Poisonable, RwLock, ThreadKey};
use std::cell::Cell;
fn main() {
    let mut key = ThreadKey::get().unwrap();
    let m = OwnedLockCollection::new((Mutex::new(1),));
    let out: Cell<Option<&mut i32>> = Cell::new(None);
    m.scoped_lock(&mut key, |d| { out.set(Some(d.0)); }); //~ERR
    let a = out.take().unwrap();
    let g = m.lock(key);
    if std::ptr::eq(&*a, &*g.0 as &i32) {
        println!("WITNESS: a &mut captured out of a scoped closure aliases the data of a live guard");
        std::process::exit(1);
    }
}
