#![allow(unused)]
use happylock::collection::{BoxedLockCollection, OwnedLockCollection, RefLockCollection, RetryingLockCollection};
use happylock::{LockCollection, Mutex, Poisonable, RwLock, ThreadKey};
fn main() {
    let m = Mutex::new(5);
    let g = m.lock(ThreadKey::get().unwrap());
    let r: &i32 = &*g;
    
    println!("{}", r);
}
