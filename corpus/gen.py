#!/usr/bin/env python3
"""Generates the compile-gated escape corpus under /verif/corpus/<prop>/<route>/.

Every route has
  bad.rs   - the minimal offending program; the offending line carries the marker `//~ERR`
  twin.rs  - identical except for the offending line(s); must compile, run and exit 0
  expect.json - accepted error codes for the marked line

A bad.rs that *compiles* is a violation; it is written so that, when executed, it prints a line
starting with `WITNESS:` describing the harm it achieved and exits with status 1.
Run this script after editing the table; the generated files are committed.
"""
import json
import os
import shutil

ROOT = os.path.dirname(os.path.abspath(__file__))

PRELUDE = """#![allow(unused)]
use happylock::collection::{BoxedLockCollection, OwnedLockCollection, RefLockCollection, RetryingLockCollection};
use happylock::{LockCollection, Mutex, Poisonable, RwLock, ThreadKey};
"""

ROUTES = []


def route(prop, name, codes, body, bad, twin, note=""):
    """body contains the placeholder @@ which is replaced by the bad / twin line(s)."""
    ROUTES.append(dict(prop=prop, name=name, codes=codes, body=body, bad=bad, twin=twin, note=note))


# ------------------------------------------------------------------------------------------
# C14: the one-key discipline

route("C14", "key_send_into_thread", ["E0277"], """
fn main() {
    let m = Mutex::new(0);
    let key = ThreadKey::get().unwrap();
    @@
}
""",
      "std::thread::spawn(move || { let k = key; drop(k); }).join().unwrap(); //~ERR",
      "std::thread::spawn(move || { let k = ThreadKey::get().unwrap(); drop(k); }).join().unwrap(); drop(key);")

route("C14", "key_mut_ref_across_scope", ["E0277"], """
fn main() {
    let m = Mutex::new(0);
    let mut key = ThreadKey::get().unwrap();
    std::thread::scope(|s| {
        @@
    });
}
""",
      "s.spawn(|| { m.scoped_lock(&mut key, |d| *d += 1); }); //~ERR",
      "s.spawn(|| { let mut k = ThreadKey::get().unwrap(); m.scoped_lock(&mut k, |d| *d += 1); }); m.scoped_lock(&mut key, |d| *d += 1);")

route("C14", "key_returned_from_thread", ["E0277"], """
fn main() {
    @@
}
""",
      "let k = std::thread::spawn(|| ThreadKey::get().unwrap()).join().unwrap(); //~ERR",
      "let k = std::thread::spawn(|| ThreadKey::get().is_some()).join().unwrap(); assert!(k);")

route("C14", "key_through_channel", ["E0277"], """
fn main() {
    let (tx, rx) = std::sync::mpsc::channel::<ThreadKey>();
    let key = ThreadKey::get().unwrap();
    @@
}
""",
      "std::thread::spawn(move || { tx.send(ThreadKey::get().unwrap()).unwrap(); }); //~ERR",
      "tx.send(key).unwrap(); let back = rx.recv().unwrap(); drop(back);")

route("C14", "key_in_shared_static", ["E0277"], """
use std::sync::OnceLock;
@@
fn main() {
    let _ = ThreadKey::get().unwrap();
}
""",
      "static KEY: OnceLock<ThreadKey> = OnceLock::new(); //~ERR",
      "static KEY: OnceLock<u32> = OnceLock::new();")

route("C14", "key_in_std_mutex_shared", ["E0277"], """
use std::sync::Arc;
fn main() {
    let shared = Arc::new(std::sync::Mutex::new(ThreadKey::get()));
    let s2 = shared.clone();
    @@
}
""",
      "std::thread::spawn(move || { let _k = s2.lock().unwrap().take(); }).join().unwrap(); //~ERR",
      "let _k = s2.lock().unwrap().take();")

route("C14", "key_clone", ["E0599"], """
fn main() {
    let key = ThreadKey::get().unwrap();
    @@
}
""",
      "let k2 = key.clone(); //~ERR",
      "let k2 = key;")

route("C14", "key_copy", ["E0382"], """
fn main() {
    let m = Mutex::new(0);
    let n = Mutex::new(0);
    let key = ThreadKey::get().unwrap();
    let g1 = m.lock(key);
    @@
}
""",
      "let g2 = n.lock(key); //~ERR",
      "let key = Mutex::unlock(g1); let g2 = n.lock(key);")

route("C14", "key_default", ["E0599"], """
fn main() {
    @@
}
""",
      "let k: ThreadKey = ThreadKey::default(); //~ERR",
      "let k: ThreadKey = ThreadKey::get().unwrap();")

route("C14", "key_forged_literal", ["E0451", "E0063", "E0423"], """
use std::marker::PhantomData;
fn main() {
    @@
}
""",
      "let k = ThreadKey { phantom: PhantomData }; //~ERR",
      "let k = ThreadKey::get().unwrap();")

route("C14", "key_transmuted_from_unit_needs_unsafe", ["E0133"], """
fn main() {
    @@
}
""",
      "let k: ThreadKey = std::mem::transmute(()); //~ERR",
      "let k: ThreadKey = ThreadKey::get().unwrap();")

route("C14", "keyable_forged_impl", ["E0277", "E0603"], """
use happylock::Keyable;
struct MyKey;
@@
fn main() {
    let m = Mutex::new(0);
    let mut key = ThreadKey::get().unwrap();
    m.scoped_lock(&mut key, |d| *d += 1);
}
""",
      "unsafe impl Keyable for MyKey {} //~ERR",
      "")

route("C14", "shared_ref_is_not_a_key", ["E0277"], """
fn main() {
    let m = Mutex::new(0);
    let mut key = ThreadKey::get().unwrap();
    @@
}
""",
      "m.scoped_lock(&key, |d| *d += 1); //~ERR",
      "m.scoped_lock(&mut key, |d| *d += 1);")

route("C14", "guard_api_with_borrowed_key_mutex", ["E0308"], """
fn main() {
    let m = Mutex::new(0);
    let mut key = ThreadKey::get().unwrap();
    @@
}
""",
      "let g = m.lock(&mut key); //~ERR",
      "let g = m.lock(key);")

route("C14", "guard_api_with_borrowed_key_rwlock", ["E0308"], """
fn main() {
    let m = RwLock::new(0);
    let mut key = ThreadKey::get().unwrap();
    @@
}
""",
      "let g = m.read(&mut key); //~ERR",
      "let g = m.read(key);")

route("C14", "guard_api_with_borrowed_key_collection", ["E0308"], """
fn main() {
    let c = LockCollection::new((Mutex::new(0), RwLock::new(1)));
    let mut key = ThreadKey::get().unwrap();
    @@
}
""",
      "let g = c.lock(&mut key); //~ERR",
      "let g = c.lock(key);")

route("C14", "guard_api_with_borrowed_key_poisonable", ["E0308"], """
fn main() {
    let c = Poisonable::new(Mutex::new(0));
    let mut key = ThreadKey::get().unwrap();
    @@
}
""",
      "let g = c.lock(&mut key); //~ERR",
      "let g = c.lock(key);")

route("C14", "try_lock_with_borrowed_key", ["E0308"], """
fn main() {
    let c = RetryingLockCollection::new((Mutex::new(0), RwLock::new(1)));
    let mut key = ThreadKey::get().unwrap();
    @@
}
""",
      "let g = c.try_lock(&mut key); //~ERR",
      "let g = c.try_lock(key);")

route("C14", "key_used_while_guard_alive", ["E0382"], """
fn main() {
    let a = Mutex::new(0);
    let b = RwLock::new(0);
    let key = ThreadKey::get().unwrap();
    let ga = a.lock(key);
    @@
    drop(ga);
}
""",
      "let gb = b.write(key); //~ERR",
      "")

route("C14", "nested_scoped_reuses_lent_key", ["E0499", "E0501", "E0502", "E0500", "E0524"], """
fn main() {
    let a = Mutex::new(0);
    let b = Mutex::new(0);
    let mut key = ThreadKey::get().unwrap();
    a.scoped_lock(&mut key, |x| {
        @@
    });
}
""",
      "b.scoped_lock(&mut key, |y| *y += *x); //~ERR",
      "*x += 1;")

route("C14", "nested_scoped_in_collection_reuses_lent_key", ["E0499", "E0501", "E0502", "E0500", "E0524", "E0596"], """
fn main() {
    let a = LockCollection::new((Mutex::new(0), Mutex::new(1)));
    let b = Mutex::new(0);
    let mut key = ThreadKey::get().unwrap();
    a.scoped_lock(&mut key, |x| {
        @@
    });
}
""",
      "b.scoped_lock(&mut key, |y| *y += *x.0); //~ERR",
      "*x.0 += 1;")

route("C14", "key_reused_after_owned_scoped", ["E0382"], """
fn main() {
    let a = Mutex::new(0);
    let key = ThreadKey::get().unwrap();
    a.scoped_lock(key, |x| *x += 1);
    @@
}
""",
      "let g = a.lock(key); //~ERR",
      "let g = a.lock(ThreadKey::get().unwrap());")

route("C14", "forged_key_via_borrowmut", ["E0277"], """
use std::borrow::{Borrow, BorrowMut};
#[derive(Clone, Copy)]
struct Forged;
impl Borrow<ThreadKey> for Forged { fn borrow(&self) -> &ThreadKey { loop {} } }
impl BorrowMut<ThreadKey> for Forged { fn borrow_mut(&mut self) -> &mut ThreadKey { loop {} } }
fn main() {
    let a = Mutex::new(0);
    let b = Mutex::new(0);
    let mut key = ThreadKey::get().unwrap();
    a.scoped_lock(&mut key, |x| {
        @@
    });
    println!("WITNESS: a forged, copyable key was accepted by scoped_lock while the real key was lent out");
    std::process::exit(1);
}
""",
      "b.scoped_lock(Forged, |y| *y += *x); //~ERR",
      "*x += 1; if true { std::process::exit(0); }")

route("C14", "read_hold_cloned_out_of_collection_guard", ["E0277", "E0599"], """
use happylock::rwlock::RwLockReadRef;
fn main() {
    let c = LockCollection::new((RwLock::new(1), RwLock::new(2)));
    let g = c.read(ThreadKey::get().unwrap());
    @@
    let key = LockCollection::<(RwLock<i32>, RwLock<i32>)>::unlock_read(g);
    if c.try_lock(key).is_err() {
        println!("WITNESS: the key came back while a cloned read hold is still alive");
        std::process::exit(1);
    }
}
""",
      "let kept = <RwLockReadRef<'_, _, _> as Clone>::clone(&g.0); //~ERR",
      "let kept: i32 = *g.0;")

route("C14", "forged_key_boxed", ["E0277"], """
fn main() {
    let a = Mutex::new(0);
    let key = Box::new(ThreadKey::get().unwrap());
    @@
}
""",
      "a.scoped_lock(key, |x| *x += 1); //~ERR",
      "a.scoped_lock(*key, |x| *x += 1);")

for gname, setup, field, twin in [
    ("collection_guard_inner", "let m = LockCollection::new((Mutex::new(0), Mutex::new(1))); let g = m.lock(ThreadKey::get().unwrap());", "guard", "drop(g);"),
    ("mutex_guard_inner", "let m = Mutex::new(0); let g = m.lock(ThreadKey::get().unwrap());", "mutex", "drop(g);"),
    ("read_guard_inner", "let m = RwLock::new(0); let g = m.read(ThreadKey::get().unwrap());", "rwlock", "drop(g);"),
    ("write_guard_inner", "let m = RwLock::new(0); let g = m.write(ThreadKey::get().unwrap());", "rwlock", "drop(g);"),
    ("write_guard_key", "let m = RwLock::new(0); let g = m.write(ThreadKey::get().unwrap());", "thread_key", "drop(g);"),
    ("poison_guard_inner", "let m = Poisonable::new(Mutex::new(0)); let g = m.lock(ThreadKey::get().unwrap()).unwrap();", "guard", "drop(g);"),
    ("poison_guard_key", "let m = Poisonable::new(Mutex::new(0)); let g = m.lock(ThreadKey::get().unwrap()).unwrap();", "key", "drop(g);"),
]:
    route("C14", "guard_field_moved_out_" + gname, ["E0616"], """
fn main() {
    %s
    @@
    if ThreadKey::get().is_some() {
        println!("WITNESS: the guard was taken apart: the key is obtainable again while the lock is still held");
        std::process::exit(1);
    }
}
""" % setup,
          "let stolen = g.%s; //~ERR" % field,
          twin + " if true { return; }")

for gname, setup, send in [
    ("mutex_guard", "let m = Mutex::new(0); let g = m.lock(key);", "g"),
    ("rwlock_read_guard", "let m = RwLock::new(0); let g = m.read(key);", "g"),
    ("rwlock_write_guard", "let m = RwLock::new(0); let g = m.write(key);", "g"),
    ("collection_guard", "let m = LockCollection::new((Mutex::new(0), RwLock::new(0))); let g = m.lock(key);", "g"),
    ("collection_read_guard", "let m = RetryingLockCollection::new([RwLock::new(0), RwLock::new(0)]); let g = m.read(key);", "g"),
    ("poison_guard", "let m = Poisonable::new(Mutex::new(0)); let g = m.lock(key).unwrap();", "g"),
]:
    route("C14", "guard_send_" + gname, ["E0277"], """
fn main() {
    let key = ThreadKey::get().unwrap();
    %s
    std::thread::scope(|s| {
        @@
    });
}
""" % setup,
          "s.spawn(move || drop(%s)); //~ERR" % send,
          "drop(%s);" % send)

route("C14", "guard_private_key_field_mutex", ["E0616"], """
fn main() {
    let m = Mutex::new(0);
    let g = m.lock(ThreadKey::get().unwrap());
    @@
}
""",
      "let k = g.thread_key; //~ERR",
      "let k = Mutex::unlock(g);")

route("C14", "guard_private_key_field_collection", ["E0616"], """
fn main() {
    let m = LockCollection::new((Mutex::new(0),));
    let g = m.lock(ThreadKey::get().unwrap());
    @@
}
""",
      "let k = g.key; //~ERR",
      "let k = LockCollection::<(Mutex<i32>,)>::unlock(g);")

route("C14", "guard_destructured", ["E0451", "E0026", "E0027", "E0603"], """
use happylock::collection::LockGuard;
fn main() {
    let m = LockCollection::new((Mutex::new(0),));
    let g = m.lock(ThreadKey::get().unwrap());
    @@
}
""",
      "let LockGuard { guard, key } = g; //~ERR",
      "drop(g);")

route("C14", "holds_moved_out_of_tuple_guard", ["E0507"], """
fn main() {
    let m = LockCollection::new((Mutex::new(0), Mutex::new(1)));
    let mut g = m.lock(ThreadKey::get().unwrap());
    @@
}
""",
      "let stolen = g.0; //~ERR",
      "*g.0 += 1;")

# D2: known finding - the guard of a Vec / Box<[T]> collection is Box<[Guard]>, which is Default
route("C14", "holds_taken_out_of_boxed_slice_guard_vec", ["E0277", "E0507", "E0596"], """
fn main() {
    let locks = vec![Mutex::new(0), Mutex::new(1)];
    let c = LockCollection::new(locks);
    let mut g = c.lock(ThreadKey::get().unwrap());
    @@
    drop(g); // hands the key back to the thread ...
    let key = ThreadKey::get();
    if let Some(key) = key {
        // ... while `stolen` still holds every lock of the collection
        let free = c.try_lock(key).is_ok();
        if !free && !stolen.is_empty() {
            println!("WITNESS: the thread got its key back while still holding {} live lock guards", stolen.len());
            std::process::exit(1);
        }
    }
}
""",
      "let stolen = std::mem::take(&mut *g); //~ERR",
      "let stolen: Vec<i32> = g.iter().map(|x| **x).collect();",
      note="D2")

route("C14", "holds_taken_out_of_boxed_slice_guard_read", ["E0277", "E0507", "E0596"], """
fn main() {
    let locks: Box<[RwLock<i32>]> = vec![RwLock::new(0), RwLock::new(1)].into_boxed_slice();
    let c = RetryingLockCollection::new(locks);
    let mut g = c.read(ThreadKey::get().unwrap());
    @@
    drop(g);
    if let Some(key) = ThreadKey::get() {
        let writable = c.try_lock(key).is_ok();
        if !writable && !stolen.is_empty() {
            println!("WITNESS: the thread got its key back while still holding {} live read guards", stolen.len());
            std::process::exit(1);
        }
    }
}
""",
      "let stolen = std::mem::replace(&mut *g, Box::new([])); //~ERR",
      "let stolen: Vec<i32> = g.iter().map(|x| **x).collect();",
      note="D2")

# ------------------------------------------------------------------------------------------
# C15: data confinement

route("C15", "ref_escapes_mutex_guard", ["E0505", "E0597", "E0716"], """
fn main() {
    let m = Mutex::new(5);
    let g = m.lock(ThreadKey::get().unwrap());
    let r: &i32 = &*g;
    @@
    println!("{}", r);
}
""",
      "drop(g); //~ERR",
      "")

route("C15", "ref_escapes_write_guard", ["E0505", "E0597", "E0716"], """
fn main() {
    let m = RwLock::new(5);
    let mut g = m.write(ThreadKey::get().unwrap());
    let r: &mut i32 = &mut *g;
    @@
    *r += 1;
}
""",
      "drop(g); //~ERR",
      "")

route("C15", "ref_escapes_collection_guard", ["E0505", "E0597", "E0716"], """
fn main() {
    let c = LockCollection::new((Mutex::new(5), RwLock::new(6)));
    let mut g = c.lock(ThreadKey::get().unwrap());
    let r: &mut i32 = &mut *g.0;
    @@
    *r += 1;
}
""",
      "let key = LockCollection::<(Mutex<i32>, RwLock<i32>)>::unlock(g); //~ERR",
      "")

route("C15", "ref_escapes_block_of_guard", ["E0597", "E0515", "E0716"], """
fn main() {
    let m = Mutex::new(5);
    let r: &i32 = {
        let g = m.lock(ThreadKey::get().unwrap());
        @@
    };
    println!("{}", r);
}
""",
      "&*g //~ERR",
      "&5")

route("C15", "guard_outlives_mutex", ["E0597", "E0505", "E0515"], """
fn main() {
    let key = ThreadKey::get().unwrap();
    let g = {
        let m = Mutex::new(5);
        @@
    };
    let _ = g;
}
""",
      "m.lock(key) //~ERR",
      "let v = *m.lock(key); v")

route("C15", "guard_outlives_collection", ["E0597", "E0505", "E0515"], """
fn main() {
    let key = ThreadKey::get().unwrap();
    let g = {
        let c = LockCollection::new((Mutex::new(5),));
        @@
    };
    let _ = g;
}
""",
      "c.lock(key) //~ERR",
      "let v = *c.lock(key).0; v")

route("C15", "guard_outlives_locks_of_ref_collection", ["E0597", "E0505", "E0515", "E0716"], """
fn main() {
    let key = ThreadKey::get().unwrap();
    let data = (Mutex::new(1), Mutex::new(2));
    let g = {
        let c = RefLockCollection::new(&data);
        @@
    };
    let _ = g;
}
""",
      "c.lock(key) //~ERR",
      "let v = *c.lock(key).0; v")

for aname, setup, acc in [
    ("boxed_child", "let c = BoxedLockCollection::new((Mutex::new(5),));", "c.child()"),
    ("boxed_as_ref", "let c = BoxedLockCollection::new(vec![Mutex::new(5)]);", "AsRef::<[Mutex<i32>]>::as_ref(&c)"),
    ("boxed_iter", "let c = BoxedLockCollection::new(vec![Mutex::new(5)]);", "c.iter()"),
    ("retrying_child", "let c = RetryingLockCollection::new((Mutex::new(5),));", "c.child()"),
    ("retrying_iter", "let c = RetryingLockCollection::new(vec![Mutex::new(5)]);", "c.iter()"),
    ("ref_child", "let d = (Mutex::new(5),); let c = RefLockCollection::new(&d);", "c.child()"),
]:
    route("C15", "accessor_outlives_collection_" + aname, ["E0597", "E0505", "E0515", "E0716"], """
fn main() {
    let key = ThreadKey::get().unwrap();
    let r = {
        %s
        @@
    };
    let _ = r;
}
""" % setup,
          acc + " //~ERR",
          "let _ = " + acc + "; 5")

# D3: known finding - the closure argument's lifetime is the borrow of the lock itself
SCOPED = [
    ("mutex_scoped_lock", "let m = Mutex::new(1);", "m.scoped_lock(&mut key, |d| d)", "&mut i32"),
    ("rwlock_scoped_write", "let m = RwLock::new(1);", "m.scoped_write(&mut key, |d| d)", "&mut i32"),
    ("poisonable_scoped_lock", "let m = Poisonable::new(Mutex::new(1));", "m.scoped_lock(&mut key, |d| d.unwrap())", "&mut i32"),
    ("boxed_scoped_lock", "let m = BoxedLockCollection::new((Mutex::new(1),));", "m.scoped_lock(&mut key, |d| d.0)", "&mut i32"),
    ("ref_scoped_lock", "let data = (Mutex::new(1),); let m = RefLockCollection::new(&data);", "m.scoped_lock(&mut key, |d| d.0)", "&mut i32"),
    ("owned_scoped_lock", "let m = OwnedLockCollection::new((Mutex::new(1),));", "m.scoped_lock(&mut key, |d| d.0)", "&mut i32"),
    ("retrying_scoped_lock", "let m = RetryingLockCollection::new((Mutex::new(1),));", "m.scoped_lock(&mut key, |d| d.0)", "&mut i32"),
]
for name, setup, call, ty in SCOPED:
    route("C15", "scoped_return_escape_" + name, ["lifetime", "E0521", "E0597", "E0515", "E0499", "E0312", "E0623", "E0495"], """
fn main() {
    let mut key = ThreadKey::get().unwrap();
    %s
    @@
    let (pa, pb) = (a as *mut i32 as usize, b as *mut i32 as usize);
    if pa == pb {
        println!("WITNESS: two live &mut to the same protected value were obtained with no lock held");
        std::process::exit(1);
    }
}
""" % setup,
          "let a: %s = %s; let b: %s = %s; //~ERR" % (ty, call, ty, call),
          "let mut x = 0; let mut y = 0; let (a, b) = (&mut x, &mut y); %s;" % call.replace("|d| d.unwrap()", "|d| ()").replace("|d| d.0", "|d| ()").replace("|d| d)", "|d| ())"),
          note="D3")

route("C15", "scoped_shared_ref_escapes_rwlock_scoped_read", ["lifetime", "E0521", "E0597", "E0515", "E0312", "E0495"], """
fn main() {
    let mut key = ThreadKey::get().unwrap();
    let m = RwLock::new(1);
    @@
    m.scoped_write(&mut key, |d| *d += 1);
    if *r == 2 {
        println!("WITNESS: a shared reference obtained inside scoped_read is still alive across a write and observes it: {}", *r);
        std::process::exit(1);
    }
}
""",
      "let r: &i32 = m.scoped_read(&mut key, |d| d); //~ERR",
      "let v: i32 = m.scoped_read(&mut key, |d| *d); let r = &v;",
      note="D3")

route("C15", "scoped_capture_escape_mutex", ["lifetime", "E0521", "E0597", "E0499", "E0506", "E0594"], """
fn main() {
    let mut key = ThreadKey::get().unwrap();
    let m = Mutex::new(1);
    let mut out: Option<&mut i32> = None;
    @@
    let a = out.unwrap();
    let g = m.lock(key);
    if std::ptr::eq(&*a, &*g) {
        println!("WITNESS: a &mut captured out of a scoped closure aliases the data of a live guard");
        std::process::exit(1);
    }
}
""",
      "m.scoped_lock(&mut key, |d| { out = Some(d); }); //~ERR",
      "m.scoped_lock(&mut key, |d| { *d += 1; }); let mut z = 0; out = Some(&mut z);",
      note="D3")

route("C15", "scoped_return_escape_boxed_scoped_try_lock", ["lifetime", "E0521", "E0597", "E0515", "E0499", "E0312", "E0495"], """
fn main() {
    let mut key = ThreadKey::get().unwrap();
    let m = BoxedLockCollection::new((Mutex::new(1),));
    @@
    let (pa, pb) = (a as *mut i32 as usize, b as *mut i32 as usize);
    if pa == pb {
        println!("WITNESS: two live &mut to the same protected value were obtained with no lock held");
        std::process::exit(1);
    }
}
""",
      "let a: &mut i32 = m.scoped_try_lock(&mut key, |d| d.0).ok().unwrap(); let b: &mut i32 = m.scoped_try_lock(&mut key, |d| d.0).ok().unwrap(); //~ERR",
      "let mut x = 0; let mut y = 0; let (a, b) = (&mut x, &mut y); m.scoped_try_lock(&mut key, |d| ()).ok().unwrap();",
      note="D3")

route("C15", "scoped_shared_ref_escapes_retrying_scoped_read", ["lifetime", "E0521", "E0597", "E0515", "E0312", "E0495"], """
fn main() {
    let mut key = ThreadKey::get().unwrap();
    let m = RetryingLockCollection::new((RwLock::new(1),));
    @@
    m.scoped_lock(&mut key, |d| *d.0 += 1);
    if *r == 2 {
        println!("WITNESS: a shared reference obtained inside scoped_read is still alive across a write and observes it: {}", *r);
        std::process::exit(1);
    }
}
""",
      "let r: &i32 = m.scoped_read(&mut key, |d| d.0); //~ERR",
      "let v: i32 = m.scoped_read(&mut key, |d| *d.0); let r = &v;",
      note="D3")

route("C15", "scoped_capture_escape_owned_collection", ["lifetime", "E0521", "E0597", "E0499", "E0506", "E0594"], """
use std::cell::Cell;
fn main() {
    let mut key = ThreadKey::get().unwrap();
    let m = OwnedLockCollection::new((Mutex::new(1),));
    let out: Cell<Option<&mut i32>> = Cell::new(None);
    @@
    let a = out.take().unwrap();
    let g = m.lock(key);
    if std::ptr::eq(&*a, &*g.0 as &i32) {
        println!("WITNESS: a &mut captured out of a scoped closure aliases the data of a live guard");
        std::process::exit(1);
    }
}
""",
      "m.scoped_lock(&mut key, |d| { out.set(Some(d.0)); }); //~ERR",
      "m.scoped_lock(&mut key, |d| { *d.0 += 1; }); let mut z = 0; out.set(Some(&mut z));",
      note="D3")

route("C15", "owned_collection_child", ["E0599"], """
fn main() {
    let c = OwnedLockCollection::new((Mutex::new(1), Mutex::new(2)));
    @@
}
""",
      "let inner = c.child(); //~ERR",
      "let inner = c.into_child();")

route("C15", "owned_collection_as_ref", ["E0599", "E0277", "E0282", "E0283"], """
fn main() {
    let c = OwnedLockCollection::new(vec![Mutex::new(1), Mutex::new(2)]);
    @@
}
""",
      "let inner: &[Mutex<i32>] = c.as_ref(); //~ERR",
      "let mut c = c; let inner: &mut [Mutex<i32>] = c.as_mut();")

route("C15", "owned_collection_iter", ["E0599"], """
fn main() {
    let c = OwnedLockCollection::new(vec![Mutex::new(1), Mutex::new(2)]);
    @@
}
""",
      "for m in c.iter() { let _ = m; } //~ERR",
      "for m in c.into_iter() { let _ = m; }")

route("C15", "owned_collection_ref_into_iter", ["E0277"], """
fn main() {
    let c = OwnedLockCollection::new(vec![Mutex::new(1), Mutex::new(2)]);
    @@
}
""",
      "for m in &c { let _ = m; } //~ERR",
      "for m in c { let _ = m; }")

route("C15", "owned_collection_field", ["E0616"], """
fn main() {
    let c = OwnedLockCollection::new(vec![Mutex::new(1), Mutex::new(2)]);
    @@
}
""",
      "let inner = &c.data; //~ERR",
      "let inner = c.into_child();")

UNSAFE = [
    ("mutex_raw", "let m = Mutex::new(1);", "let r = m.raw();", "let r = unsafe { m.raw() };"),
    ("boxed_new_unchecked", "let a = Mutex::new(1);", "let c = BoxedLockCollection::new_unchecked((&a, &a));", "let c = BoxedLockCollection::try_new((&a, &a)); assert!(c.is_none());"),
    ("ref_new_unchecked", "let a = Mutex::new(1); let d = (&a, &a);", "let c = RefLockCollection::new_unchecked(&d);", "let c = RefLockCollection::try_new(&d); assert!(c.is_none());"),
    ("retrying_new_unchecked", "let a = Mutex::new(1);", "let c = RetryingLockCollection::new_unchecked((&a, &a));", "let c = RetryingLockCollection::try_new((&a, &a)); assert!(c.is_none());"),
    ("lockable_guard", "use happylock::lockable::Lockable; let m = Mutex::new(1);", "let g = Lockable::guard(&m);", "let g = m.lock(ThreadKey::get().unwrap());"),
    ("lockable_data_mut", "use happylock::lockable::Lockable; let m = Mutex::new(1);", "let g = m.data_mut();", "let mut m = m; let g = m.get_mut();"),
    ("sharable_read_guard", "use happylock::lockable::Sharable; let m = RwLock::new(1);", "let g = m.read_guard();", "let g = m.read(ThreadKey::get().unwrap());"),
    ("sharable_data_ref", "use happylock::lockable::Sharable; let m = RwLock::new(1);", "let g = m.data_ref();", "let g = m.read(ThreadKey::get().unwrap());"),
    ("rawlock_raw_write", "use happylock::lockable::RawLock; let m = Mutex::new(1);", "m.raw_write();", "let g = m.lock(ThreadKey::get().unwrap());"),
    ("rawlock_raw_try_read", "use happylock::lockable::RawLock; let m = RwLock::new(1);", "let b = m.raw_try_read();", "let g = m.try_read(ThreadKey::get().unwrap());"),
    ("rawlock_raw_unlock_write", "use happylock::lockable::RawLock; let m = Mutex::new(1); let g = m.lock(ThreadKey::get().unwrap());", "m.raw_unlock_write();", "drop(g);"),
    ("rawlock_raw_unlock_read_collection", "use happylock::lockable::RawLock; let m = LockCollection::new((RwLock::new(1),)); let g = m.read(ThreadKey::get().unwrap());", "m.raw_unlock_read();", "drop(g);"),
]
for name, setup, bad, twin in UNSAFE:
    # an entry point that bypasses the key (C14) / the hold (C15) must stay `unsafe`
    for prop_ in ("C15", "C14"):
        route(prop_, "unsafe_only_" + name, ["E0133"], """
fn main() {
    %s
    @@
}
""" % setup, bad + " //~ERR", twin)

# payloads that are not thread safe must not cross threads
route("C15", "rc_payload_mutex_shared", ["E0277"], """
use std::rc::Rc;
fn main() {
    let m = Mutex::new(Rc::new(1));
    std::thread::scope(|s| {
        @@
    });
}
""",
      "s.spawn(|| { let k = ThreadKey::get().unwrap(); let g = m.lock(k); let _c = Rc::clone(&g); }); //~ERR",
      "let k = ThreadKey::get().unwrap(); let g = m.lock(k); let _c = Rc::clone(&g);")

route("C15", "rc_payload_collection_sent", ["E0277"], """
use std::rc::Rc;
fn main() {
    let c = LockCollection::new((Mutex::new(Rc::new(1)),));
    @@
}
""",
      "std::thread::spawn(move || { let k = ThreadKey::get().unwrap(); let g = c.lock(k); let _c = Rc::clone(&g.0); }).join().unwrap(); //~ERR",
      "let k = ThreadKey::get().unwrap(); let g = c.lock(k); let _c = Rc::clone(&g.0);")

route("C15", "cell_payload_rwlock_shared_readers", ["E0277"], """
use std::cell::Cell;
use std::sync::atomic::{AtomicUsize, Ordering::Relaxed};
static OTHER_THREADS: AtomicUsize = AtomicUsize::new(0);
fn main() {
    let m = RwLock::new(Cell::new(0u64));
    std::thread::scope(|s| {
        for _ in 0..2 {
            @@
        }
    });
    if OTHER_THREADS.load(Relaxed) >= 2 {
        println!("WITNESS: two threads mutated a Cell concurrently under read locks: {}", m.into_inner().get());
        std::process::exit(1);
    }
}
""",
      "s.spawn(|| { OTHER_THREADS.fetch_add(1, Relaxed); let k = ThreadKey::get().unwrap(); let g = m.read(k); for _ in 0..1000 { g.set(g.get() + 1); } }); //~ERR",
      "let k = ThreadKey::get().unwrap(); let g = m.read(k); for _ in 0..1000 { g.set(g.get() + 1); } drop(g);",
      note="D1")

route("C15", "cell_payload_ref_collection_sent", ["E0277"], """
use std::cell::Cell;
use std::sync::atomic::{AtomicUsize, Ordering::Relaxed};
static OTHER_THREADS: AtomicUsize = AtomicUsize::new(0);
fn main() {
    let data = (RwLock::new(Cell::new(0u64)),);
    let c = RefLockCollection::new(&data);
    std::thread::scope(|s| {
        @@
        let k = ThreadKey::get().unwrap();
        let g = data.0.read(k);
        for _ in 0..1000 { g.set(g.get() + 1); }
    });
    if OTHER_THREADS.load(Relaxed) >= 1 {
        println!("WITNESS: a Cell was mutated from two threads under read locks: {}", data.0.into_inner().get());
        std::process::exit(1);
    }
}
""",
      "s.spawn(move || { OTHER_THREADS.fetch_add(1, Relaxed); let k = ThreadKey::get().unwrap(); let g = c.read(k); for _ in 0..1000 { g.0.set(g.0.get() + 1); } }); //~ERR",
      "{ let k = ThreadKey::get().unwrap(); let g = c.read(k); for _ in 0..1000 { g.0.set(g.0.get() + 1); } }",
      note="D1")

route("C15", "rc_payload_guard_ref_shared", ["E0277"], """
use std::rc::Rc;
fn main() {
    let m = Mutex::new(Rc::new(1));
    let g = m.lock(ThreadKey::get().unwrap());
    std::thread::scope(|s| {
        @@
    });
}
""",
      "s.spawn(|| { let _c = Rc::clone(&g); }); //~ERR",
      "let _c = Rc::clone(&g);")

# ------------------------------------------------------------------------------------------
# C07 (second sentence): unchecked-at-runtime constructors accept only owning inputs

NEWS = [
    ("boxed_new_refs", "let c = BoxedLockCollection::new((&a, &a));", "let c = BoxedLockCollection::new((Mutex::new(1), Mutex::new(2)));"),
    ("boxed_new_ref_refs", "let d = (&a, &a); let c = BoxedLockCollection::new_ref(&d);", "let d = (Mutex::new(1), Mutex::new(2)); let c = BoxedLockCollection::new_ref(&d);"),
    ("ref_new_refs", "let d = (&a, &a); let c = RefLockCollection::new(&d);", "let d = (Mutex::new(1), Mutex::new(2)); let c = RefLockCollection::new(&d);"),
    ("owned_new_refs", "let c = OwnedLockCollection::new([&a, &a]);", "let c = OwnedLockCollection::new([Mutex::new(1), Mutex::new(2)]);"),
    ("retrying_new_refs", "let c = RetryingLockCollection::new(vec![&a, &a]);", "let c = RetryingLockCollection::new(vec![Mutex::new(1), Mutex::new(2)]);"),
    ("retrying_new_ref_refs", "let d = [&a, &a]; let c = RetryingLockCollection::new_ref(&d);", "let d = [Mutex::new(1), Mutex::new(2)]; let c = RetryingLockCollection::new_ref(&d);"),
    ("boxed_from_refs", "let c = BoxedLockCollection::from((&a, &a));", "let c = BoxedLockCollection::from((Mutex::new(1), Mutex::new(2)));"),
    ("boxed_new_nested_ref_collection", "let inner = RefLockCollection::try_new(&a).unwrap(); let c = BoxedLockCollection::new((inner, &a));", "let c = BoxedLockCollection::new((OwnedLockCollection::new(Mutex::new(1)), Mutex::new(2)));"),
    ("boxed_new_poisonable_ref", "let c = BoxedLockCollection::new((Poisonable::new(&a), Poisonable::new(&a)));", "let c = BoxedLockCollection::new((Poisonable::new(Mutex::new(1)), Poisonable::new(Mutex::new(2))));"),
    ("boxed_new_mut_ref_of_ref_array", "let mut d = [&a, &a]; let c = BoxedLockCollection::new(&mut d);", "let mut d = [Mutex::new(1), Mutex::new(2)]; let c = BoxedLockCollection::new(&mut d);"),
    ("boxed_new_tuple_of_mut_refs_to_refs", "let (mut r1, mut r2) = (&a, &a); let c = BoxedLockCollection::new((&mut r1, &mut r2));", "let (mut r1, mut r2) = (Mutex::new(1), Mutex::new(2)); let c = BoxedLockCollection::new((&mut r1, &mut r2));"),
    ("owned_new_mut_ref_of_ref_vec", "let mut d = vec![&a, &a]; let c = OwnedLockCollection::new(&mut d);", "let mut d = vec![Mutex::new(1), Mutex::new(2)]; let c = OwnedLockCollection::new(&mut d);"),
    ("boxed_new_two_ref_collections", "let data = (Mutex::new(1), Mutex::new(2)); let c = BoxedLockCollection::new((RefLockCollection::new(&data), RefLockCollection::new(&data)));", "let c = BoxedLockCollection::new((OwnedLockCollection::new((Mutex::new(1), Mutex::new(2))), OwnedLockCollection::new((Mutex::new(3),))));"),
    ("retrying_new_mut_ref_of_boxed_refs", "let mut inner = BoxedLockCollection::try_new([&a]).unwrap(); let c = RetryingLockCollection::new((&mut inner, Mutex::new(3)));", "let mut inner = BoxedLockCollection::new([Mutex::new(1)]); let c = RetryingLockCollection::new((&mut inner, Mutex::new(3)));"),
    ("owned_from_iter_refs", "let c: OwnedLockCollection<Vec<&Mutex<i32>>> = vec![&a, &a].into_iter().collect();", "let c: OwnedLockCollection<Vec<Mutex<i32>>> = vec![Mutex::new(1), Mutex::new(2)].into_iter().collect();"),
]
route("C07", "owned_member_listed_next_to_owner", ["E0599", "E0277"], """
fn main() {
    let owned = OwnedLockCollection::new([Mutex::new(1), Mutex::new(2)]);
    @@
}
""",
      "let member = owned.iter().nth(1).unwrap(); let c = BoxedLockCollection::try_new((&owned, member)); if c.is_some() { println!(\"WITNESS: a lock reachable twice (through its owned collection and directly) was accepted\"); std::process::exit(1); } //~ERR",
      "let c = BoxedLockCollection::try_new((&owned, &owned)); assert!(c.is_none());")

for name, bad, twin in NEWS:
    route("C07", "unchecked_ctor_" + name, ["E0277", "E0599"], """
fn main() {
    let a = Mutex::new(0);
    @@
    let g = c.lock(ThreadKey::get().unwrap());
    drop(g);
}
""", bad + " //~ERR", twin)


# ------------------------------------------------------------------------------------------
# Systematic cross products over the acquiring API surface (8 owner types x every method that
# takes a key).  The hand-written routes above cover escape *shapes*; these cover every *site*.

# name, setup (payload i32 behind one lock called m), has shared mode, excl method names
# (blocking, try, scoped, scoped_try), projection of the closure argument to &mut i32 / &i32
API_OWNERS = [
    ("mutex", "let m = Mutex::new(1);", False, ("lock", "try_lock", "scoped_lock", "scoped_try_lock"), "d"),
    ("rwlock", "let m = RwLock::new(1);", True, ("write", "try_write", "scoped_write", "scoped_try_write"), "d"),
    ("poisonable", "let m = Poisonable::new(Mutex::new(1));", False, ("lock", "try_lock", "scoped_lock", "scoped_try_lock"), "d.unwrap()"),
    ("poisonable_rwlock", "let m = Poisonable::new(RwLock::new(1));", True, ("lock", "try_lock", "scoped_lock", "scoped_try_lock"), "d.unwrap()"),
    ("boxed", "let m = BoxedLockCollection::new((RwLock::new(1),));", True, ("lock", "try_lock", "scoped_lock", "scoped_try_lock"), "d.0"),
    ("ref", "let data = (RwLock::new(1),); let m = RefLockCollection::new(&data);", True, ("lock", "try_lock", "scoped_lock", "scoped_try_lock"), "d.0"),
    ("owned", "let m = OwnedLockCollection::new((RwLock::new(1),));", True, ("lock", "try_lock", "scoped_lock", "scoped_try_lock"), "d.0"),
    ("retrying", "let m = RetryingLockCollection::new((RwLock::new(1),));", True, ("lock", "try_lock", "scoped_lock", "scoped_try_lock"), "d.0"),
]
SHARED_METHODS = ("read", "try_read", "scoped_read", "scoped_try_read")

_existing = set(r["name"] for r in ROUTES)

# ---- C14: something that is not the thread's key in the key position of every acquiring method
for oname, setup, shared, excl, proj in API_OWNERS:
    methods = list(excl) + (list(SHARED_METHODS) if shared else [])
    for meth in methods:
        scoped = meth.startswith("scoped_")
        tryish = "try" in meth
        for argname, arg in [("unit", "()"), ("shared_ref", "&key")] + ([] if scoped else [("mut_ref", "&mut key")]):
            if scoped:
                tail = ".ok().unwrap_or(false)" if tryish else ""
                call = "let free_key = m.%s(KEY, |_| ThreadKey::get().is_some())%s;" % (meth, tail)
            else:
                call = "let g = m.%s(KEY); let free_key = ThreadKey::get().is_some();" % meth
            if arg == "()":
                bad = "drop(key); " + call.replace("KEY", "()") + " //~ERR"
            elif arg == "&key":
                # a shared reference can be copied: accepting it means two simultaneous acquisitions
                bad = call.replace("KEY", "&key").replace("ThreadKey::get().is_some()", "true") + " //~ERR"
            else:
                bad = "let mut key = key; " + call.replace("KEY", "&mut key").replace("ThreadKey::get().is_some()", "true") + " //~ERR"
            twin = call.replace("KEY", "key")
            route("C14", "nonkey_%s_%s_%s" % (argname, oname, meth), ["E0277", "E0308"], """
fn main() {
    let key = ThreadKey::get().unwrap();
    %s
    @@
    if free_key {
        println!("WITNESS: %s::%s accepted `%s` in the key position: the hold exists while the thread still has a usable key");
        std::process::exit(1);
    }
}
""" % (setup, oname, meth, arg),
                  bad, twin)

# ---- C15: the reference handed to a scoped closure must not leave the call
ESC_CODES = ["lifetime", "E0521", "E0597", "E0515", "E0499", "E0502", "E0506", "E0312", "E0495", "E0716"]
D3B_OWNERS = ("poisonable", "poisonable_rwlock", "boxed", "ref", "owned", "retrying")
for oname, setup, shared, excl, proj in API_OWNERS:
    unit_proj = "()"
    # exclusive: scoped / scoped_try
    for meth in excl[2:]:
        tail = ".ok().unwrap()" if "try" in meth else ""
        call = "m.%s(&mut key, |d| %s)%s" % (meth, proj, tail)
        call_unit = "m.%s(&mut key, |d| ())%s" % (meth, tail)
        name = "scoped_return_escape_%s_%s" % (oname, meth)
        if name not in _existing:
            route("C15", name, ESC_CODES, """
fn main() {
    let mut key = ThreadKey::get().unwrap();
    %s
    @@
    let (pa, pb) = (a as *mut i32 as usize, b as *mut i32 as usize);
    if pa == pb {
        println!("WITNESS: two live &mut to the same protected value were obtained with no lock held");
        std::process::exit(1);
    }
}
""" % setup,
                  "let a: &mut i32 = %s; let b: &mut i32 = %s; //~ERR" % (call, call),
                  "let mut x = 0; let mut y = 0; let (a, b) = (&mut x, &mut y); %s;" % call_unit,
                  note="D3b" if oname in D3B_OWNERS else "")
        if oname in D3B_OWNERS:
            continue
        # capture through a Cell (the closures are Fn)
        route("C15", "scoped_cell_capture_escape_%s_%s" % (oname, meth), ESC_CODES, """
use std::cell::Cell;
fn main() {
    let mut key = ThreadKey::get().unwrap();
    %s
    let out: Cell<Option<&mut i32>> = Cell::new(None);
    @@
    let a = out.take().unwrap() as *mut i32 as usize;
    let b = m.%s(&mut key, |d| d as *mut i32 as usize)%s;
    if a == b {
        println!("WITNESS: a &mut smuggled out of a scoped closure through a Cell still points at the protected value after the call");
        std::process::exit(1);
    }
}
""" % (setup, meth, tail),
              "m.%s(&mut key, |d| { out.set(Some(d)); })%s; //~ERR" % (meth, tail),
              "m.%s(&mut key, |d| { *d += 1; })%s; let mut z = 0; out.set(Some(&mut z));" % (meth, tail))
    if not shared:
        continue
    write_call = {"rwlock": "m.scoped_write(&mut key, |d| *d += 1);",
                  "poisonable_rwlock": "m.scoped_lock(&mut key, |d| *d.unwrap() += 1);"}.get(oname, "m.scoped_lock(&mut key, |d| *d.0 += 1);")
    for meth in SHARED_METHODS[2:]:
        tail = ".ok().unwrap()" if "try" in meth else ""
        name = "scoped_shared_ref_escapes_%s_%s" % (oname, meth)
        if name in _existing:
            continue
        route("C15", name, ESC_CODES, """
fn main() {
    let mut key = ThreadKey::get().unwrap();
    %s
    @@
    %s
    if *r == 2 {
        println!("WITNESS: a shared reference obtained inside %s is still alive across a write and observes it: {}", *r);
        std::process::exit(1);
    }
}
""" % (setup, write_call, meth),
              "let r: &i32 = m.%s(&mut key, |d| %s)%s; //~ERR" % (meth, proj, tail),
              "let v: i32 = m.%s(&mut key, |d| *%s)%s; let r = &v;" % (meth, proj, tail),
              note="D3b" if oname in D3B_OWNERS else "")
        if oname in D3B_OWNERS:
            continue
        route("C15", "scoped_cell_capture_escape_%s_%s" % (oname, meth), ESC_CODES, """
use std::cell::Cell;
fn main() {
    let mut key = ThreadKey::get().unwrap();
    %s
    let out: Cell<Option<&i32>> = Cell::new(None);
    @@
    let r = out.take().unwrap();
    %s
    if *r == 2 {
        println!("WITNESS: a shared reference smuggled out of %s through a Cell is alive across a write and observes it");
        std::process::exit(1);
    }
}
""" % (setup, write_call, meth),
              "m.%s(&mut key, |d| { out.set(Some(%s)); })%s; //~ERR" % (meth, proj, tail),
              "m.%s(&mut key, |d| { let _ = *%s; })%s; let z = 1; out.set(Some(&z));" % (meth, proj, tail))


# ---- C14: a collection guard consumed by value must not hand out its holds and free the key
for cname, ctor, elem in [
    ("array", "LockCollection::new([Mutex::new(1), Mutex::new(2)])", "Mutex"),
    ("vec", "LockCollection::new(vec![Mutex::new(1), Mutex::new(2)])", "Mutex"),
    ("boxed_slice", "RetryingLockCollection::new(vec![RwLock::new(1), RwLock::new(2)].into_boxed_slice())", "RwLock"),
]:
    for form, bad in [
        ("into_iter", "let holds: Vec<_> = IntoIterator::into_iter(g).collect(); //~ERR"),
        ("for_loop", "let mut holds = Vec::new(); for h in g { holds.push(h); } //~ERR"),
    ]:
        route("C14", "guard_consumed_by_value_%s_%s" % (form, cname), ["E0277", "E0507", "E0508", "E0599", "E0382"], """
fn main() {
    let c = %s;
    let key = ThreadKey::get().unwrap();
    let g = c.lock(key);
    @@
    let free_key = ThreadKey::get().is_some();
    if free_key && !holds.is_empty() {
        println!("WITNESS: consuming the collection guard by value handed out {} live per-lock holds and gave the thread its key back", holds.len());
        std::process::exit(1);
    }
}
""" % ctor,
              bad,
              "let holds: Vec<i32> = g.iter().map(|h| **h).collect();")


# ---- C07: a collection that passed the duplicate check must not be changeable, in safe code, into
# one that lists a lock twice (defect D11: RetryingLockCollection::child_mut / as_mut / iter_mut were
# available for collections over references)
for mname, mutate in [
    ("child_mut", "c.child_mut()[1] = &a;"),
    ("as_mut", "AsMut::<Vec<&Mutex<i32>>>::as_mut(&mut c)[1] = &a;"),
    ("iter_mut", "*c.iter_mut().nth(1).unwrap() = &a;"),
    ("into_iter_mut", "for slot in &mut c { *slot = &a; }"),
]:
    route("C07", "duplicate_introduced_after_try_new_" + mname, ["E0277", "E0599"], """
fn main() {
    let (tx, rx) = std::sync::mpsc::channel();
    std::thread::spawn(move || {
        let a = Mutex::new(1);
        let b = Mutex::new(2);
        let mut c = RetryingLockCollection::try_new(vec![&a, &b]).expect("duplicate-free");
        @@
        let g = c.lock(ThreadKey::get().unwrap());
        tx.send(g.len()).unwrap();
    });
    if rx.recv_timeout(std::time::Duration::from_secs(3)).is_err() {
        println!("WITNESS: lock() on a collection validated by try_new never returns after safe code made it list one lock twice (single thread)");
        std::process::exit(1);
    }
}
""",
          mutate + " //~ERR",
          "let _ = c.child().len();",
          note="D11")


def emit():
    for prop in ("C14", "C15", "C07"):
        d = os.path.join(ROOT, prop)
        if os.path.isdir(d):
            shutil.rmtree(d)
    for r in ROUTES:
        d = os.path.join(ROOT, r["prop"], r["name"])
        os.makedirs(d, exist_ok=True)
        body = PRELUDE + r["body"].lstrip("\n")
        with open(os.path.join(d, "bad.rs"), "w") as f:
            f.write(body.replace("@@", r["bad"]))
        with open(os.path.join(d, "twin.rs"), "w") as f:
            f.write(body.replace("@@", r["twin"]))
        with open(os.path.join(d, "expect.json"), "w") as f:
            json.dump(dict(property=r["prop"], route=r["name"], error_codes=r["codes"], note=r["note"]), f, indent=1)
    print("%d routes written" % len(ROUTES))


if __name__ == "__main__":
    emit()


# ------------------------------------------------------------------------------------------
# C15 auto-trait matrix: ONE program that always compiles; autoref specialisation turns
# "does X implement Send/Sync" into a runtime bool, for happylock types and their std analogues.

MATRIX_PAYLOADS = [
    ("Rc<i32>", "std::rc::Rc<i32>"),
    ("Cell<i32>", "std::cell::Cell<i32>"),
    ("SyncNotSend", "SyncNotSend"),
    ("i32", "i32"),
]

# (name, happylock type, std analogue), P is substituted
MATRIX_TYPES = [
    ("Mutex<P>", "happylock::Mutex<P>", "std::sync::Mutex<P>"),
    ("RwLock<P>", "happylock::RwLock<P>", "std::sync::RwLock<P>"),
    ("MutexGuard<P>", "happylock::mutex::MutexGuard<'static, P, parking_lot::RawMutex>", "std::sync::MutexGuard<'static, P>"),
    ("MutexRef<P>", "happylock::mutex::MutexRef<'static, P, parking_lot::RawMutex>", "std::sync::MutexGuard<'static, P>"),
    ("RwLockReadGuard<P>", "happylock::rwlock::RwLockReadGuard<'static, P, parking_lot::RawRwLock>", "std::sync::RwLockReadGuard<'static, P>"),
    ("RwLockReadRef<P>", "happylock::rwlock::RwLockReadRef<'static, P, parking_lot::RawRwLock>", "std::sync::RwLockReadGuard<'static, P>"),
    ("RwLockWriteGuard<P>", "happylock::rwlock::RwLockWriteGuard<'static, P, parking_lot::RawRwLock>", "std::sync::RwLockWriteGuard<'static, P>"),
    ("RwLockWriteRef<P>", "happylock::rwlock::RwLockWriteRef<'static, P, parking_lot::RawRwLock>", "std::sync::RwLockWriteGuard<'static, P>"),
    ("LockGuard<(MutexRef<P>,)>", "happylock::collection::LockGuard<(happylock::mutex::MutexRef<'static, P, parking_lot::RawMutex>,)>", "(std::sync::MutexGuard<'static, P>,)"),
    ("LockGuard<Box<[RwLockReadRef<P>]>>", "happylock::collection::LockGuard<Box<[happylock::rwlock::RwLockReadRef<'static, P, parking_lot::RawRwLock>]>>", "Box<[std::sync::RwLockReadGuard<'static, P>]>"),
    ("PoisonGuard<MutexRef<P>>", "happylock::poisonable::PoisonGuard<'static, happylock::mutex::MutexRef<'static, P, parking_lot::RawMutex>>", "std::sync::MutexGuard<'static, P>"),
    ("PoisonRef<RwLockReadRef<P>>", "happylock::poisonable::PoisonRef<'static, happylock::rwlock::RwLockReadRef<'static, P, parking_lot::RawRwLock>>", "std::sync::RwLockReadGuard<'static, P>"),
    ("Poisonable<Mutex<P>>", "happylock::Poisonable<happylock::Mutex<P>>", "std::sync::Mutex<P>"),
    ("Poisonable<RwLock<P>>", "happylock::Poisonable<happylock::RwLock<P>>", "std::sync::RwLock<P>"),
    ("Boxed<(Mutex<P>,)>", "happylock::collection::BoxedLockCollection<(happylock::Mutex<P>,)>", "Box<(std::sync::Mutex<P>,)>"),
    ("Boxed<(RwLock<P>,)>", "happylock::collection::BoxedLockCollection<(happylock::RwLock<P>,)>", "Box<(std::sync::RwLock<P>,)>"),
    ("Boxed<(&Mutex<P>,)>", "happylock::collection::BoxedLockCollection<(&'static happylock::Mutex<P>,)>", "Box<(&'static std::sync::Mutex<P>,)>"),
    ("Boxed<(&RwLock<P>,)>", "happylock::collection::BoxedLockCollection<(&'static happylock::RwLock<P>,)>", "Box<(&'static std::sync::RwLock<P>,)>"),
    ("Ref<(Mutex<P>,)>", "happylock::collection::RefLockCollection<'static, (happylock::Mutex<P>,)>", "&'static (std::sync::Mutex<P>,)"),
    ("Ref<(RwLock<P>,)>", "happylock::collection::RefLockCollection<'static, (happylock::RwLock<P>,)>", "&'static (std::sync::RwLock<P>,)"),
    ("Ref<Vec<&RwLock<P>>>", "happylock::collection::RefLockCollection<'static, Vec<&'static happylock::RwLock<P>>>", "&'static Vec<&'static std::sync::RwLock<P>>"),
    ("Owned<(Mutex<P>,RwLock<P>)>", "happylock::collection::OwnedLockCollection<(happylock::Mutex<P>, happylock::RwLock<P>)>", "(std::sync::Mutex<P>, std::sync::RwLock<P>)"),
    ("Owned<Vec<RwLock<P>>>", "happylock::collection::OwnedLockCollection<Vec<happylock::RwLock<P>>>", "Vec<std::sync::RwLock<P>>"),
    ("Retrying<(Mutex<P>,RwLock<P>)>", "happylock::collection::RetryingLockCollection<(happylock::Mutex<P>, happylock::RwLock<P>)>", "(std::sync::Mutex<P>, std::sync::RwLock<P>)"),
    ("Retrying<[&RwLock<P>;2]>", "happylock::collection::RetryingLockCollection<[&'static happylock::RwLock<P>; 2]>", "[&'static std::sync::RwLock<P>; 2]"),
    ("&Mutex<P>", "&'static happylock::Mutex<P>", "&'static std::sync::Mutex<P>"),
    ("&RwLock<P>", "&'static happylock::RwLock<P>", "&'static std::sync::RwLock<P>"),
]


def emit_matrix():
    d = os.path.join(ROOT, "C15_matrix")
    if os.path.isdir(d):
        shutil.rmtree(d)
    os.makedirs(d)
    lines = []
    lines.append("""#![allow(unused)]
// GENERATED by corpus/gen.py - auto-trait matrix (C15).  Prints one line per probe:
//   <type>|<payload>|<trait>|<happylock verdict>|<std analogue verdict>
use std::marker::PhantomData;

struct SyncNotSend(PhantomData<*const ()>);
unsafe impl Sync for SyncNotSend {}

struct Probe<T: ?Sized>(PhantomData<T>);
trait Fallback {
    fn is_send(&self) -> bool { false }
    fn is_sync(&self) -> bool { false }
}
impl<T: ?Sized> Fallback for Probe<T> {}
struct ProbeSend<T: ?Sized>(PhantomData<T>);
struct ProbeSync<T: ?Sized>(PhantomData<T>);
trait FallbackSend { fn is_send(&self) -> bool { false } }
trait FallbackSync { fn is_sync(&self) -> bool { false } }
impl<T: ?Sized> FallbackSend for ProbeSend<T> {}
impl<T: ?Sized> FallbackSync for ProbeSync<T> {}
impl<T: ?Sized + Send> ProbeSend<T> { fn is_send(&self) -> bool { true } }
impl<T: ?Sized + Sync> ProbeSync<T> { fn is_sync(&self) -> bool { true } }
struct ProbeOwned<T>(PhantomData<T>);
trait FallbackOwned { fn is_owned(&self) -> bool { false } }
impl<T> FallbackOwned for ProbeOwned<T> {}
impl<T: happylock::lockable::OwnedLockable> ProbeOwned<T> { fn is_owned(&self) -> bool { true } }
struct ProbeClone<T>(PhantomData<T>);
trait FallbackClone { fn is_clone(&self) -> bool { false } }
impl<T> FallbackClone for ProbeClone<T> {}
impl<T: Clone> ProbeClone<T> { fn is_clone(&self) -> bool { true } }
struct ProbeDefault<T>(PhantomData<T>);
trait FallbackDefault { fn is_default(&self) -> bool { false } }
impl<T> FallbackDefault for ProbeDefault<T> {}
impl<T: Default> ProbeDefault<T> { fn is_default(&self) -> bool { true } }
struct ProbeIntoIter<T>(PhantomData<T>);
trait FallbackIntoIter { fn is_into_iter(&self) -> bool { false } }
impl<T> FallbackIntoIter for ProbeIntoIter<T> {}
impl<T: IntoIterator> ProbeIntoIter<T> { fn is_into_iter(&self) -> bool { true } }
struct ProbeFromIter<T, I>(PhantomData<(T, I)>);
trait FallbackFromIter { fn is_from_iter(&self) -> bool { false } }
impl<T, I> FallbackFromIter for ProbeFromIter<T, I> {}
impl<I, T: FromIterator<I>> ProbeFromIter<T, I> { fn is_from_iter(&self) -> bool { true } }
struct ProbeExtend<T, I>(PhantomData<(T, I)>);
trait FallbackExtend { fn is_extend(&self) -> bool { false } }
impl<T, I> FallbackExtend for ProbeExtend<T, I> {}
impl<I, T: Extend<I>> ProbeExtend<T, I> { fn is_extend(&self) -> bool { true } }
struct ProbeFrom<T, U>(PhantomData<(T, U)>);
trait FallbackFrom { fn is_from(&self) -> bool { false } }
impl<T, U> FallbackFrom for ProbeFrom<T, U> {}
impl<U, T: From<U>> ProbeFrom<T, U> { fn is_from(&self) -> bool { true } }
struct ProbeAsMut<T, U: ?Sized>(PhantomData<T>, PhantomData<U>);
trait FallbackAsMut { fn is_as_mut(&self) -> bool { false } }
impl<T, U: ?Sized> FallbackAsMut for ProbeAsMut<T, U> {}
impl<U: ?Sized, T: AsMut<U>> ProbeAsMut<T, U> { fn is_as_mut(&self) -> bool { true } }
struct ProbeCopy<T>(PhantomData<T>);
trait FallbackCopy { fn is_copy(&self) -> bool { false } }
impl<T> FallbackCopy for ProbeCopy<T> {}
impl<T: Copy> ProbeCopy<T> { fn is_copy(&self) -> bool { true } }
/// raw locks whose guards may be sent (like parking_lot with `send_guard`, or `spin`)
struct SendRawMutex(parking_lot::RawMutex);
unsafe impl lock_api::RawMutex for SendRawMutex {
    const INIT: Self = SendRawMutex(<parking_lot::RawMutex as lock_api::RawMutex>::INIT);
    type GuardMarker = lock_api::GuardSend;
    fn lock(&self) { self.0.lock() }
    fn try_lock(&self) -> bool { self.0.try_lock() }
    unsafe fn unlock(&self) { self.0.unlock() }
}
struct SendRawRwLock(parking_lot::RawRwLock);
unsafe impl lock_api::RawRwLock for SendRawRwLock {
    const INIT: Self = SendRawRwLock(<parking_lot::RawRwLock as lock_api::RawRwLock>::INIT);
    type GuardMarker = lock_api::GuardSend;
    fn lock_shared(&self) { self.0.lock_shared() }
    fn try_lock_shared(&self) -> bool { self.0.try_lock_shared() }
    unsafe fn unlock_shared(&self) { self.0.unlock_shared() }
    fn lock_exclusive(&self) { self.0.lock_exclusive() }
    fn try_lock_exclusive(&self) -> bool { self.0.try_lock_exclusive() }
    unsafe fn unlock_exclusive(&self) { self.0.unlock_exclusive() }
}
struct ProbeKey<T>(PhantomData<T>);
trait FallbackKey { fn is_key(&self) -> bool { false } }
impl<T> FallbackKey for ProbeKey<T> {}
impl<T: happylock::Keyable> ProbeKey<T> { fn is_key(&self) -> bool { true } }
#[derive(Clone, Copy)]
struct Forged;
impl std::borrow::Borrow<happylock::ThreadKey> for Forged { fn borrow(&self) -> &happylock::ThreadKey { loop {} } }
impl std::borrow::BorrowMut<happylock::ThreadKey> for Forged { fn borrow_mut(&mut self) -> &mut happylock::ThreadKey { loop {} } }

macro_rules! probe {
    ($name:expr, $payload:expr, $hl:ty, $std:ty) => {
        println!("{}|{}|Send|{}|{}", $name, $payload, ProbeSend::<$hl>(PhantomData).is_send(), ProbeSend::<$std>(PhantomData).is_send());
        println!("{}|{}|Sync|{}|{}", $name, $payload, ProbeSync::<$hl>(PhantomData).is_sync(), ProbeSync::<$std>(PhantomData).is_sync());
    };
}

fn main() {
    // self-test of the probe on known types
    assert!(ProbeSend::<i32>(PhantomData).is_send());
    assert!(!ProbeSend::<std::rc::Rc<i32>>(PhantomData).is_send());
    assert!(!ProbeSync::<std::cell::Cell<i32>>(PhantomData).is_sync());
    assert!(ProbeSync::<SyncNotSend>(PhantomData).is_sync());
    assert!(!ProbeSend::<SyncNotSend>(PhantomData).is_send());
""")
    import re
    for pname, pty in MATRIX_PAYLOADS:
        for name, hl, std in MATRIX_TYPES:
            hl2 = re.sub(r"\bP\b", pty, hl)
            std2 = re.sub(r"\bP\b", pty, std)
            lines.append('    probe!("%s", "%s", %s, %s);' % (name, pname, hl2, std2))
    M = "happylock::Mutex<i32>"
    R = "happylock::RwLock<i32>"
    C = "happylock::collection::"
    owned_yes = [M, R, "(%s, %s)" % (M, R), "[%s; 2]" % M, "Vec<%s>" % M, "Box<[%s]>" % M, "&'static mut %s" % M,
                 "&'static mut (%s, %s)" % (M, R), "happylock::Poisonable<%s>" % M, C + "BoxedLockCollection<(%s,)>" % M,
                 C + "OwnedLockCollection<(%s,)>" % M, C + "RetryingLockCollection<(%s,)>" % M,
                 C + "BoxedLockCollection<Vec<happylock::Poisonable<%s>>>" % R, "&'static mut " + C + "OwnedLockCollection<[%s; 2]>" % M]
    owned_no = ["&'static %s" % M, "(&'static %s, &'static %s)" % (M, M), "[&'static %s; 2]" % M, "Vec<&'static %s>" % M,
                "Box<[&'static %s]>" % R, "&'static mut &'static %s" % M, "&'static mut (&'static %s,)" % M,
                "&'static mut [&'static %s; 2]" % M, "&'static mut Vec<&'static %s>" % R, "happylock::Poisonable<&'static %s>" % M,
                C + "RefLockCollection<'static, (%s,)>" % M, C + "RefLockCollection<'static, Vec<&'static %s>>" % M,
                C + "BoxedLockCollection<(&'static %s,)>" % M, C + "BoxedLockCollection<&'static (%s,)>" % M,
                C + "RetryingLockCollection<[&'static %s; 2]>" % M, C + "RetryingLockCollection<&'static (%s,)>" % M,
                "(%s, &'static %s)" % (M, M), "&'static mut " + C + "BoxedLockCollection<[&'static %s; 2]>" % M,
                "&'static mut " + C + "RefLockCollection<'static, (%s,)>" % M,
                "(" + C + "RefLockCollection<'static, (%s,)>, " % M + C + "RefLockCollection<'static, (%s,)>)" % M]
    key_yes = ["happylock::ThreadKey", "&'static mut happylock::ThreadKey"]
    key_no = ["&'static happylock::ThreadKey", "Box<happylock::ThreadKey>", "&'static mut &'static mut happylock::ThreadKey",
              "Option<happylock::ThreadKey>", "()", "Forged", "std::rc::Rc<happylock::ThreadKey>",
              "std::cell::RefMut<'static, happylock::ThreadKey>", "&'static mut Box<happylock::ThreadKey>", "&'static mut Forged"]
    for t in owned_yes:
        lines.append('    println!("OWNED|%s|true|{}", ProbeOwned::<%s>(PhantomData).is_owned());' % (t, t))
    for t in owned_no:
        lines.append('    println!("OWNED|%s|false|{}", ProbeOwned::<%s>(PhantomData).is_owned());' % (t, t))
    MG = "happylock::mutex::MutexGuard<'static, i32, parking_lot::RawMutex>"
    MR = "happylock::mutex::MutexRef<'static, i32, parking_lot::RawMutex>"
    RR = "happylock::rwlock::RwLockReadRef<'static, i32, parking_lot::RawRwLock>"
    WR = "happylock::rwlock::RwLockWriteRef<'static, i32, parking_lot::RawRwLock>"
    RG = "happylock::rwlock::RwLockReadGuard<'static, i32, parking_lot::RawRwLock>"
    WG = "happylock::rwlock::RwLockWriteGuard<'static, i32, parking_lot::RawRwLock>"
    LG = C + "LockGuard<(%s, %s)>" % (MR, RR)
    PG = "happylock::poisonable::PoisonGuard<'static, %s>" % MR
    PRf = "happylock::poisonable::PoisonRef<'static, %s>" % RR
    # nothing that stands for a key or a live hold may be duplicated or conjured up
    for t in ["happylock::ThreadKey", MG, MR, RR, WR, RG, WG, LG, PG, PRf]:
        lines.append('    println!("CLONE|%s|false|{}", ProbeClone::<%s>(PhantomData).is_clone());' % (t, t))
    for t in ["happylock::ThreadKey", MG, RG, WG, LG, PG]:
        lines.append('    println!("DEFAULT|%s|false|{}", ProbeDefault::<%s>(PhantomData).is_default());' % (t, t))
    # a guard that carries the thread's key must not be consumable into its parts by value
    # (IntoIterator would hand out the per-lock holds and drop the key), nor be Copy
    LGA = C + "LockGuard<[%s; 2]>" % MR
    LGB = C + "LockGuard<Box<[%s]>>" % MR
    LGR = C + "LockGuard<Box<[%s]>>" % RR
    for t in ["happylock::ThreadKey", MG, RG, WG, LG, LGA, LGB, LGR, PG]:
        lines.append('    println!("INTOITER|%s|false|{}", ProbeIntoIter::<%s>(PhantomData).is_into_iter());' % (t, t))
        lines.append('    println!("COPY|%s|false|{}", ProbeCopy::<%s>(PhantomData).is_copy());' % (t, t))
    # constructors that skip the duplicate check exist only for inputs that own their locks:
    # Default / FromIterator / Extend / From over a container of *references* must not exist
    RM = "&'static %s" % M
    VR = "Vec<%s>" % RM
    for coll in ("BoxedLockCollection", "OwnedLockCollection", "RetryingLockCollection"):
        t = C + coll + "<%s>" % VR
        lines.append('    println!("CTOR|%s: Default|false|{}", ProbeDefault::<%s>(PhantomData).is_default());' % (t, t))
        lines.append('    println!("CTOR|%s: FromIterator<&Mutex>|false|{}", ProbeFromIter::<%s, %s>(PhantomData).is_from_iter());' % (t, t, RM))
        lines.append('    println!("CTOR|%s: Extend<&Mutex>|false|{}", ProbeExtend::<%s, %s>(PhantomData).is_extend());' % (t, t, RM))
        lines.append('    println!("CTOR|%s: From<Vec<&Mutex>>|false|{}", ProbeFrom::<%s, %s>(PhantomData).is_from());' % (t, t, VR))
        t2 = C + coll + "<Vec<%s>>" % M
        lines.append('    println!("CTOR|%s: Default|true|{}", ProbeDefault::<%s>(PhantomData).is_default());' % (t2, t2))
    # a sorting collection records its lock list at construction: no structural &mut access to its child
    for coll, lt in (("BoxedLockCollection", ""), ("RefLockCollection", "'static, ")):
        t = C + coll + "<%sVec<%s>>" % (lt, M)
        lines.append('    println!("CTOR|%s: AsMut<Vec<Mutex>>|false|{}", ProbeAsMut::<%s, Vec<%s>>(PhantomData, PhantomData).is_as_mut());' % (t, t, M))
        lines.append('    println!("CTOR|%s: AsMut<[Mutex]>|false|{}", ProbeAsMut::<%s, [%s]>(PhantomData, PhantomData).is_as_mut());' % (t, t, M))
    # a guard that carries the thread's key must never be Send, whatever the raw lock allows
    for t in ["happylock::mutex::MutexGuard<'static, i32, SendRawMutex>",
              "happylock::rwlock::RwLockReadGuard<'static, i32, SendRawRwLock>",
              "happylock::rwlock::RwLockWriteGuard<'static, i32, SendRawRwLock>",
              C + "LockGuard<(happylock::mutex::MutexRef<'static, i32, SendRawMutex>,)>",
              "happylock::poisonable::PoisonGuard<'static, happylock::mutex::MutexRef<'static, i32, SendRawMutex>>",
              # values that carry the key without being guards: the errors of refused / poisoned attempts
              "happylock::poisonable::TryLockPoisonableError<'static, happylock::mutex::MutexRef<'static, i32, SendRawMutex>>",
              "happylock::poisonable::PoisonError<happylock::poisonable::PoisonGuard<'static, happylock::mutex::MutexRef<'static, i32, SendRawMutex>>>",
              "Result<happylock::mutex::MutexGuard<'static, i32, SendRawMutex>, happylock::ThreadKey>",
              "happylock::poisonable::TryLockPoisonableError<'static, %s>" % MR,
              "happylock::poisonable::PoisonError<%s>" % PG,
              "happylock::ThreadKey"]:
        lines.append('    println!("KEYSEND|%s|false|{}", ProbeSend::<%s>(PhantomData).is_send());' % (t, t))
    for t in key_yes:
        lines.append('    println!("KEY|%s|true|{}", ProbeKey::<%s>(PhantomData).is_key());' % (t, t))
    for t in key_no:
        lines.append('    println!("KEY|%s|false|{}", ProbeKey::<%s>(PhantomData).is_key());' % (t, t))
    lines.append("}")
    with open(os.path.join(d, "matrix.rs"), "w") as f:
        f.write("\n".join(lines) + "\n")
    print("matrix: %d probes" % (len(MATRIX_PAYLOADS) * len(MATRIX_TYPES) * 2))


if __name__ == "__main__":
    emit_matrix()
