#!/usr/bin/env python3
"""Re-run, with the machinery as it stands, the quick check of the property each seeded change was
written against, and record the outcome in /verif/seeded/<id>/meta.json (detection.own_check_final)
and /verif/seeded/TABLE.md.

  redetect.py            every entry under /verif/seeded
  redetect.py C03 C10-5  only entries whose id starts with one of the given prefixes

Procedure per entry (lib/seedtest.py detect): `git -C /repo apply patch.diff`, `./check <Cnn> --tier
quick`, `git -C /repo checkout -- .`; /repo must be clean before and is clean afterwards.
"""
import json
import os
import sys
import time

sys.path.insert(0, os.path.dirname(os.path.abspath(__file__)))
import seedtest  # noqa: E402

ROOT = "/verif/seeded"


def table():
    rows = []
    for sid in sorted(os.listdir(ROOT)):
        mp = os.path.join(ROOT, sid, "meta.json")
        if not os.path.exists(mp):
            continue
        m = json.load(open(mp))
        own = m["breaks_property"]
        caught = m["detection"]["caught_by"]
        own_rules = (m["detection"]["per_check"].get(own) or {}).get("rules") or []
        first = m["detection"].get("first_measured_run")
        rows.append("| `%s` | %s | %s | %s | %s | %s |" % (
            sid, m["change"].replace("|", "/"), "**yes**" if own in caught else "NO",
            ", ".join(r.replace("rule=", "") for r in own_rules[:3]),
            "-" if first is None else ("caught" if first.get("exit") == 1 else ("INCONCLUSIVE (harness aborted)" if first.get("exit") == 2 else "MISSED")),
            ", ".join(c for c in caught if c != own) or "-"))
    with open(os.path.join(ROOT, "TABLE.md"), "w") as f:
        f.write("| seeded change | what it does | caught by its own property's check (committed machinery) | rules that fired there | first measured run of its round | also caught by |\n|---|---|---|---|---|---|\n")
        f.write("\n".join(rows) + "\n")


def main():
    prefixes = sys.argv[1:]
    todo = [s for s in sorted(os.listdir(ROOT)) if os.path.isdir(os.path.join(ROOT, s)) and (not prefixes or any(s.startswith(p) for p in prefixes))]
    for n, sid in enumerate(todo):
        d = os.path.join(ROOT, sid)
        meta = json.load(open(os.path.join(d, "meta.json")))
        prop = meta["breaks_property"]
        t0 = time.time()
        res = seedtest.detect(d, [prop])
        r = res[prop]
        det = meta["detection"]
        det["own_check_final"] = r
        det["per_check"][prop] = dict(exit=r.get("exit"), rules=r.get("rules"), wall_s=r.get("wall"))
        caught = set(det.get("caught_by", []))
        if r.get("exit") == 1:
            caught.add(prop)
        else:
            caught.discard(prop)
        det["caught_by"] = sorted(caught)
        json.dump(meta, open(os.path.join(d, "meta.json"), "w"), indent=1)
        print("[%d/%d] %s: own check exit=%s rules=%s (%.0fs)" % (n + 1, len(todo), sid, r.get("exit"), r.get("rules"), time.time() - t0), flush=True)
    table()


if __name__ == "__main__":
    if len(sys.argv) > 1 and sys.argv[1] == "--table":
        table()
    else:
        main()
