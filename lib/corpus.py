"""Compile-gated escape corpus lane (C14, C15, C07 second sentence) and the auto-trait matrix.

Every program is compiled with rustc against the happylock rlib that the harness build just
produced from /repo's working tree.  Verdict per route:
  held         bad.rs rejected with an expected error code on the marked line AND twin.rs
               compiles, runs and exits 0
  violated     bad.rs compiles; it is then executed (natively, and under Miri in the thorough
               tier) and its WITNESS line / Miri report is recorded
  inconclusive anything else (twin broken, bad rejected for another reason)
"""
import concurrent.futures
import glob
import json
import os
import shutil
import subprocess
import time

ROOT = os.path.dirname(os.path.dirname(os.path.abspath(__file__)))
HARNESS = os.path.join(ROOT, "harness")
CORPUS = os.path.join(ROOT, "corpus")
BUILD = os.path.join(CORPUS, ".build")
DEPS = os.path.join(HARNESS, "target", "release", "deps")


def _newest(pattern):
    c = glob.glob(os.path.join(DEPS, pattern))
    if not c:
        return None
    return max(c, key=os.path.getmtime)


def _externs():
    ex = []
    for name in ("happylock", "lock_api", "parking_lot"):
        r = _newest("lib%s-*.rlib" % name)
        if r is None:
            return None
        ex += ["--extern", "%s=%s" % (name, r)]
    return ex


def _rustc(src, out, externs):
    cmd = ["rustc", "--edition", "2021", "--error-format=json", "-C", "opt-level=0", "-C", "debuginfo=0",
           "--cap-lints", "allow", "-L", "dependency=" + DEPS] + externs + ["-o", out, src]
    p = subprocess.run(cmd, stdout=subprocess.PIPE, stderr=subprocess.PIPE, text=True)
    errors = []
    for line in p.stderr.splitlines():
        if not line.startswith("{"):
            continue
        try:
            m = json.loads(line)
        except Exception:
            continue
        if m.get("level") != "error":
            continue
        code = (m.get("code") or {}).get("code")
        if code is None and ("lifetime may not live long enough" in m.get("message", "") or "borrowed data escapes" in m.get("message", "")):
            code = "lifetime"
        lines = [s.get("line_start") for s in m.get("spans", []) if s.get("is_primary")]
        all_lines = [s.get("line_start") for s in m.get("spans", [])]
        errors.append(dict(code=code, lines=lines, all_lines=all_lines, message=m.get("message", "")[:300]))
    return p.returncode == 0, errors


def _marked_lines(src):
    out = []
    for i, l in enumerate(open(src).read().splitlines(), 1):
        if "//~ERR" in l:
            out.append(i)
    return out


def _run(exe, timeout=60):
    try:
        p = subprocess.run([exe], stdout=subprocess.PIPE, stderr=subprocess.PIPE, text=True, timeout=timeout)
        return p.returncode, p.stdout, p.stderr
    except subprocess.TimeoutExpired:
        return -999, "", "timeout"


def _miri_single(src, name, timeout=600):
    """run one source file under Miri through a throw-away cargo project"""
    proj = os.path.join(BUILD, "miri_" + name)
    os.makedirs(os.path.join(proj, "src"), exist_ok=True)
    shutil.copy(src, os.path.join(proj, "src", "main.rs"))
    with open(os.path.join(proj, "Cargo.toml"), "w") as f:
        f.write('[package]\nname = "%s"\nversion = "0.1.0"\nedition = "2021"\n[dependencies]\nhappylock = { path = "/repo" }\nparking_lot = "0.12"\nlock_api = "0.4"\n[workspace]\n' % ("m" + name.replace("-", "_")))
    shutil.copy(os.path.join(HARNESS, "Cargo.lock"), os.path.join(proj, "Cargo.lock"))
    env = dict(os.environ)
    env["CARGO_NET_OFFLINE"] = "true"
    env["MIRIFLAGS"] = "-Zmiri-disable-isolation -Zmiri-permissive-provenance -Zmiri-preemption-rate=0.05"
    env["CARGO_TARGET_DIR"] = os.path.join(BUILD, "miri_target")
    try:
        p = subprocess.run(["cargo", "+nightly", "miri", "run", "--quiet", "--offline"], cwd=proj, env=env,
                           stdout=subprocess.PIPE, stderr=subprocess.PIPE, text=True, timeout=timeout)
        return p.returncode, p.stdout, p.stderr
    except subprocess.TimeoutExpired:
        return -999, "", "timeout"


def lane_corpus(prop, tier, seed, jobs, params):
    t0 = time.time()
    lane = "corpus:" + prop
    externs = _externs()
    if externs is None:
        return dict(lane=lane, violations=[], inconclusive=["happylock rlib not found under " + DEPS])
    dirs = params.get("dirs") or [prop]
    routes = []
    for dname in dirs:
        pd = os.path.join(CORPUS, dname)
        if os.path.isdir(pd):
            routes += sorted(os.path.join(dname, d) for d in os.listdir(pd) if os.path.isdir(os.path.join(pd, d)))
    os.makedirs(BUILD, exist_ok=True)
    counters = dict(routes=len(routes), bad_rejected_as_expected=0, bad_compiled=0, twins_ran_clean=0, executed_under_miri=0)
    violations, inconclusive, samples = [], [], []

    def one(route):
        d = os.path.join(CORPUS, route)
        exp = json.load(open(os.path.join(d, "expect.json")))
        bad, twin = os.path.join(d, "bad.rs"), os.path.join(d, "twin.rs")
        out_bad = os.path.join(BUILD, "%s_%s_bad" % (prop, route.replace("/", "_")))
        out_twin = os.path.join(BUILD, "%s_%s_twin" % (prop, route.replace("/", "_")))
        ok_bad, err_bad = _rustc(bad, out_bad, externs)
        ok_twin, err_twin = _rustc(twin, out_twin, externs)
        res = dict(route=route, note=exp.get("note", ""))
        # twin
        if not ok_twin:
            res["verdict"] = "inconclusive"
            res["why"] = "twin.rs does not compile: %s" % (err_twin[:2],)
            return res
        rc, so, se = _run(out_twin)
        if rc != 0:
            res["verdict"] = "inconclusive"
            res["why"] = "twin.rs exited %s: %s %s" % (rc, so[-300:], se[-300:])
            return res
        res["twin"] = "compiled, ran, exit 0"
        marked = _marked_lines(bad)
        if ok_bad:
            rc, so, se = _run(out_bad)
            witness = next((l for l in so.splitlines() if l.startswith("WITNESS:")), "")
            res["verdict"] = "violated"
            res["run"] = dict(exit=rc, witness=witness, stdout=so[-500:], stderr=se[-500:])
            if tier == "thorough" or params.get("miri_always"):
                mrc, mso, mse = _miri_single(bad, "%s_%s" % (prop, route.replace("/", "_")))
                first = next((l for l in mse.splitlines() if l.startswith("error:")), "")
                res["miri"] = dict(exit=mrc, report=first, excerpt="\n".join([l for l in mse.splitlines() if l.strip()][:25]))
            return res
        hits = [e for e in err_bad if e["code"] in exp["error_codes"] and (set(e["lines"]) & set(marked) or set(e["all_lines"]) & set(marked))]
        if hits:
            res["verdict"] = "held"
            res["rejected_with"] = sorted(set(e["code"] for e in hits))
        else:
            res["verdict"] = "inconclusive"
            res["why"] = "bad.rs was rejected, but not with %s on the marked line %s: %s" % (exp["error_codes"], marked, [(e["code"], e["lines"], e["message"][:80]) for e in err_bad[:4]])
        return res

    with concurrent.futures.ThreadPoolExecutor(max_workers=max(1, jobs)) as ex:
        results = list(ex.map(one, routes))
    nontrivial = 0
    for r in results:
        if r.get("twin"):
            counters["twins_ran_clean"] += 1
        if r["verdict"] == "held":
            counters["bad_rejected_as_expected"] += 1
            nontrivial += 1
            if len(samples) < 4:
                samples.append(dict(route=r["route"], verdict="held", rejected_with=r["rejected_with"], twin=r["twin"]))
        elif r["verdict"] == "violated":
            counters["bad_compiled"] += 1
            nontrivial += 1
            if "miri" in r:
                counters["executed_under_miri"] += 1
            run = r.get("run", {})
            detail = "bad.rs of route '%s' is accepted by the compiler. Executed: exit=%s %s" % (r["route"], run.get("exit"), run.get("witness") or run.get("stdout", "")[-200:])
            if "miri" in r:
                detail += " | under Miri: " + (r["miri"].get("report") or "no report (exit %s)" % r["miri"].get("exit"))
            violations.append(dict(prop=prop, rule="escape_route_compiles", detail=detail, signature="%s:route:%s" % (prop, r["route"].split("/")[-1]),
                                   case=os.path.join("corpus", r["route"], "bad.rs"), index=0, log=[]))
            samples.append(dict(route=r["route"], verdict="violated", run=run, miri=r.get("miri")))
        else:
            inconclusive.append("route %s: %s" % (r["route"], r.get("why")))
    return dict(
        lane=lane, evaluations=len(routes) * 2, distinct_nontrivial=nontrivial, counters=counters, samples=samples[:8],
        violations=violations, inconclusive=inconclusive, wall_s=round(time.time() - t0, 2),
        rule="one minimal offending program per escape route, each with a twin differing only in the offending line; compiled by rustc against the happylock rlib built from the current tree; a route counts when bad.rs is rejected with an expected error code on the marked line and the twin compiles and runs clean; every bad.rs that compiles is executed (and run under Miri in the thorough tier) and its witness recorded",
        explanation="compile-gated execution: rustc's verdict decides acceptance; every accepted offending program is executed and must not be able to show harm",
    )


def lane_matrix(prop, tier, seed, jobs, params):
    """auto-trait matrix: one always-compiling program, executed; happylock must be at least as
    strict as the std analogue"""
    t0 = time.time()
    lane = "automatrix"
    externs = _externs()
    if externs is None:
        return dict(lane=lane, violations=[], inconclusive=["happylock rlib not found"])
    os.makedirs(BUILD, exist_ok=True)
    src = os.path.join(CORPUS, "C15_matrix", "matrix.rs")
    out = os.path.join(BUILD, "matrix")
    ok, errs = _rustc(src, out, externs)
    if not ok:
        return dict(lane=lane, violations=[], inconclusive=["matrix.rs does not compile against the current tree: %s" % errs[:3]])
    rc, so, se = _run(out)
    if rc != 0:
        return dict(lane=lane, violations=[], inconclusive=["matrix exited %s: %s" % (rc, se[-400:])])
    violations, samples, inconclusive = [], [], []
    n, strict, interesting = 0, 0, 0
    for line in so.splitlines():
        parts = line.split("|")
        if len(parts) == 4 and parts[0] in ("OWNED", "KEY", "CLONE", "DEFAULT", "KEYSEND", "INTOITER", "COPY", "CTOR"):
            kind, ty, expected, actual = parts
            n += 1
            expected, actual = expected == "true", actual == "true"
            if not expected:
                interesting += 1
            props = ("C15", "C07") if kind in ("OWNED", "CTOR") else ("C14",)
            if actual and not expected and prop in props:
                what = {
                    "OWNED": "%s implements OwnedLockable although it does not own its locks: the constructors that skip the duplicate check accept it",
                    "KEY": "%s implements Keyable: a value that is not the thread's unique key is accepted as a key",
                    "CLONE": "%s implements Clone: a key / live hold can be duplicated in safe code",
                    "DEFAULT": "%s implements Default: a key / guard can be conjured up in safe code",
                    "KEYSEND": "%s is Send: a guard carrying the thread's key can be moved to another thread",
                    "INTOITER": "%s implements IntoIterator by value: consuming it hands out its parts (per-lock holds) and drops the key it carries",
                    "COPY": "%s implements Copy: a key / live hold can be duplicated in safe code",
                    "CTOR": "%s holds: a collection over references can be built / filled by a constructor that skips the duplicate check",
                }[kind] % ty
                violations.append(dict(prop=prop, rule="marker_trait_too_permissive", detail=what,
                                       signature="%s:matrix:%s:%s" % (prop, kind, ty), case="corpus/C15_matrix/matrix.rs", index=n, log=[]))
            elif expected and not actual:
                inconclusive.append("matrix: %s lost an expected impl (%s) - API regression, not a property violation" % (ty, kind))
            continue
        if len(parts) != 5:
            continue
        ty, payload, trait, hl, std = parts
        n += 1
        hl, std = hl == "true", std == "true"
        if not std:
            interesting += 1
        if hl and not std and prop == "C15":
            violations.append(dict(prop=prop, rule="auto_trait_weaker_than_std",
                                   detail="%s with payload %s implements %s, but the std analogue does not" % (ty, payload, trait),
                                   signature="%s:matrix:%s:%s:%s" % (prop, ty, payload, trait), case="corpus/C15_matrix/matrix.rs", index=n, log=[]))
        elif not hl and std:
            strict += 1
        if len(samples) < 4 and not std and n % 7 == 0:
            samples.append(dict(type=ty, payload=payload, trait=trait, happylock=hl, std=std))
    return dict(lane=lane, evaluations=n, distinct_nontrivial=interesting, samples=samples, violations=violations, inconclusive=inconclusive,
                counters=dict(probes=n, std_says_no=interesting, happylock_stricter_than_std=strict), wall_s=round(time.time() - t0, 2),
                rule="auto-trait matrix: for payloads Rc (neither), Cell (Send only), a Sync+!Send type and i32, Send/Sync of every lock, guard, ref and collection type is evaluated at run time by autoref specialisation next to its std analogue (std::sync::Mutex/RwLock, their guards, tuples/references/boxes of them); violation iff happylock says yes where std says no; plus marker-trait probes: which types implement OwnedLockable (gate of the constructors that skip the duplicate check) and Keyable (what is accepted as a key) against an expected table; non-trivial = probes whose expected answer is no")
