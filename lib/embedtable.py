#!/usr/bin/env python3
"""Replace the copy of seeded/TABLE.md embedded in DESIGN.md (section 10.3) with the current file."""
import re
D = "/verif/DESIGN.md"
t = open(D).read()
tab = open("/verif/seeded/TABLE.md").read().rstrip("\n") + "\n"
head = "| seeded change | what it does |"
i = t.index(head)
j = t.index("\nLimits seen while doing this", i)
open(D, "w").write(t[:i] + tab + t[j:])
print("embedded", tab.count("\n") - 2, "rows")
