"""Lanes and the per-property registry for ./check."""
import glob
import json
import os
import shutil
import subprocess
import sys
import time

ROOT = os.path.dirname(os.path.dirname(os.path.abspath(__file__)))
HARNESS = os.path.join(ROOT, "harness")
EVID = os.path.join(ROOT, "evidence")
RAW = os.path.join(EVID, "raw")
REPLAYS = os.path.join(EVID, "replays")
KNOWN = os.path.join(ROOT, "known_findings.json")

ENV = dict(os.environ)
ENV.setdefault("CARGO_NET_OFFLINE", "true")
ENV["CARGO_TERM_COLOR"] = "never"

# ---------------------------------------------------------------------------------------------
# registry: property -> level + lanes.  A lane is (kind, params).

CONC = ("hlmon", dict(runner="conc"))
PROPS = {
    "C01": dict(level="exploration", lanes=[CONC, ("hlmon", dict(runner="seqfam")), ("hlmon", dict(runner="ownedconc")), ("hlmon", dict(runner="conc_fault")), ("hlmon", dict(runner="blockfam")), ("hlmon", dict(runner="tuplefam"))]),
    "C02": dict(level="exploration", lanes=[
        CONC, ("hlmon", dict(runner="conc_panic")), ("hlmon", dict(runner="blockfam")), ("hlmon", dict(runner="tuplefam")), ("hlmon", dict(runner="racefam")),
        ("hlmon", dict(runner="seqfam")), ("hlmon", dict(runner="tryfam")), ("hlmon", dict(runner="panicfam")), ("miri", dict(runner="racefam", mode="seeds", seeds_quick=16, seeds_thorough=256, canary="canary_race")),
        ("tsan", dict(runner="racefam", thorough_only=True)),
    ]),
    "C03": dict(level="exploration", lanes=[("hlmon", dict(runner="seqfam")), ("hlmon", dict(runner="blockfam")), ("hlmon", dict(runner="tuplefam")), ("hlmon", dict(runner="faultfam")), ("hlmon", dict(runner="conc_fault")), CONC, ("hlmon", dict(runner="tryfam")), ("hlmon", dict(runner="panicfam")), ("hlmon", dict(runner="poisonfam")), ("hlmon", dict(runner="keyfam"))]),
    "C04": dict(level="exploration", lanes=[("hlmon", dict(runner="tryfam")), ("hlmon", dict(runner="blockfam")), ("hlmon", dict(runner="tuplefam")), ("hlmon", dict(runner="poisonfam")), CONC, ("hlmon", dict(runner="seqfam")), ("hlmon", dict(runner="orderfam")), ("hlmon", dict(runner="dupfam")), ("hlmon", dict(runner="panicfam")), ("hlmon", dict(runner="faultfam"))]),
    "C05": dict(level="exploration", lanes=[CONC, ("hlmon", dict(runner="seqfam")), ("hlmon", dict(runner="tryfam")), ("hlmon", dict(runner="blockfam")), ("hlmon", dict(runner="tuplefam")), ("hlmon", dict(runner="conc_panic")), ("hlmon", dict(runner="faultfam")), ("hlmon", dict(runner="conc_fault")), ("hlmon", dict(runner="panicfam")), ("hlmon", dict(runner="poisonfam")), ("hlmon", dict(runner="nonacqfam")), ("hlmon", dict(runner="orderfam"))]),
    "C06": dict(level="exploration", lanes=[("hlmon", dict(runner="keyfam")), ("hlmon", dict(runner="seqfam")), ("hlmon", dict(runner="blockfam")), ("hlmon", dict(runner="conc"))]),
    "C07": dict(level="exploration", lanes=[("hlmon", dict(runner="dupfam")), ("corpus", dict()), ("matrix", dict())]),
    "C08": dict(level="exploration", lanes=[("hlmon", dict(runner="orderfam")), ("hlmon", dict(runner="ownedconc"))]),
    "C09": dict(level="exploration", lanes=[("hlmon", dict(runner="conc_retry")), ("hlmon", dict(runner="blockfam")), ("hlmon", dict(runner="seqfam")), ("hlmon", dict(runner="conc"))]),
    "C10": dict(level="exploration", lanes=[("hlmon", dict(runner="poisonfam")), ("hlmon", dict(runner="poisonsoak")), ("hlmon", dict(runner="conc_panic")), ("hlmon", dict(runner="nonacqfam"))]),
    "C11": dict(level="fault_enumeration", lanes=[("hlmon", dict(runner="panicfam")), ("hlmon", dict(runner="conc_panic")), ("hlmon", dict(runner="seqfam")), ("hlmon", dict(runner="poisonfam"))]),
    "C12": dict(level="fault_enumeration", lanes=[("hlmon", dict(runner="faultfam")), ("hlmon", dict(runner="conc_fault"))]),
    "C13": dict(level="exploration", lanes=[("hlmon", dict(runner="tryfam")), ("hlmon", dict(runner="tuplefam"))]),
    "C14": dict(level="other", lanes=[("corpus", dict()), ("matrix", dict()), ("hlmon", dict(runner="keyfam"))],
                explanation="Compile-gated execution. The statement quantifies over programs the compiler must reject; a monitor cannot observe a program that does not exist, so each escape route is attempted: rustc's verdict on a minimal offending program (with a compiling, running twin that differs only in the offending line) decides acceptance, and every offending program that is accepted is executed and has to demonstrate the harm itself (WITNESS line; Miri report in the thorough tier). The KeyModel lane (C06 histories) shows at run time that the accepted API surface never yields two usable keys. The universal quantifier is sampled by the corpus of known escape shapes - a new shape is invisible to it."),
    "C15": dict(level="other", lanes=[("corpus", dict(dirs=["C15", "C07"])), ("matrix", dict()), ("miri", dict(runner="racefam", mode="seeds", seeds_quick=8, seeds_thorough=64, canary="canary_race"))],
                explanation="Compile-gated execution + sanitizers. Escape routes for protected data (references outliving guards / closures / collections, shared access into owned collections, unsafe-only entry points, non-thread-safe payloads crossing threads) are attempted as minimal programs with compiling twins; accepted offending programs are executed (natively with a self-check, under Miri in the thorough tier). The auto-trait matrix is one always-compiling program that evaluates Send/Sync of every happylock type next to its std analogue at run time; happylock must be at least as strict. The accepted API surface is exercised under Miri on production locks (racefam) for data races and aliasing violations."),
    "C16": dict(level="exploration", lanes=[
        ("hlmon", dict(runner="dropfam")),
        ("miri", dict(runner="dropfam", shards=8, canary="canary_leak")),
        ("memcheck", dict(runner="dropfam", thorough_only=True)),
    ]),
    "C17": dict(level="exploration", lanes=[("hlmon", dict(runner="nonacqfam")), CONC, ("hlmon", dict(runner="seqfam")), ("hlmon", dict(runner="blockfam"))]),
}

ASSUMPTIONS = {
    "_common": [
        "the audit raw locks (harness/src/audit.rs, world.rs) model a correct mutex / rwlock; happylock sees them only through lock_api::RawMutex / RawRwLock, like parking_lot",
        "harness Member/Lk adapters only dispatch to happylock's own API (harness/src/arena.rs, lk.rs)",
        "verdict covers only the executions produced in this run (programs, schedules, inputs listed under coverage)",
    ],
}


def log(*a):
    print(*a, file=sys.stderr, flush=True)


def build_harness():
    """cargo build of the harness against /repo's working tree; returns (ok, message)."""
    t0 = time.time()
    p = subprocess.run(
        ["cargo", "build", "--release", "--offline"],
        cwd=HARNESS,
        env=ENV,
        stdout=subprocess.PIPE,
        stderr=subprocess.STDOUT,
        text=True,
    )
    if p.returncode != 0:
        return False, p.stdout[-4000:]
    return True, "built in %.1fs" % (time.time() - t0)


def load_known():
    if not os.path.exists(KNOWN):
        return []
    d = json.load(open(KNOWN))
    return d.get("findings", [])


def lane_hlmon(prop, tier, seed, jobs, params):
    os.makedirs(RAW, exist_ok=True)
    runner = params["runner"]
    out = os.path.join(RAW, "%s.%s.json" % (prop, runner))
    if os.path.exists(out):
        os.remove(out)
    cmd = [
        os.path.join(HARNESS, "target", "release", "hlmon"),
        runner,
        "--seed",
        str(seed),
        "--jobs",
        str(jobs),
        "--out",
        out,
    ]
    if tier == "thorough":
        cmd.append("--thorough")
    cmd += ["--target-prop", prop]
    cmd += params.get("args", [])
    known = [k["signature"] for k in load_known()]
    if known:
        cmd += ["--known", ";".join(known)]
    timeout = params.get("timeout", 3600 if tier == "thorough" else 900)
    t0 = time.time()
    try:
        p = subprocess.run(cmd, cwd=ROOT, env=ENV, stdout=subprocess.PIPE, stderr=subprocess.STDOUT, text=True, timeout=timeout)
    except subprocess.TimeoutExpired:
        return dict(lane="hlmon:" + runner, inconclusive=["watchdog: hlmon %s exceeded %ds" % (runner, timeout)], violations=[])
    if p.returncode != 0 or not os.path.exists(out):
        return dict(
            lane="hlmon:" + runner,
            inconclusive=["hlmon %s exited %d: %s" % (runner, p.returncode, p.stdout[-2000:])],
            violations=[],
        )
    d = json.load(open(out))
    d["lane"] = "hlmon:" + runner
    d["replay_cmd"] = cmd
    d["wall_s"] = round(time.time() - t0, 2)
    return d


def _json_line(text):
    for line in text.splitlines():
        if line.startswith('{"property_id"'):
            try:
                return json.loads(line)
            except Exception:
                return None
    return None


def _merge_reports(reports):
    out = dict(evaluations=0, distinct_nontrivial=0, counters={}, samples=[], violations=[], known_hits=[], inconclusive=[], rule="")
    for d in reports:
        out["evaluations"] += d.get("evaluations", 0)
        out["distinct_nontrivial"] += d.get("distinct_nontrivial", 0)
        for k, v in d.get("counters", {}).items():
            out["counters"][k] = out["counters"].get(k, 0) + v
        out["samples"] += d.get("samples", [])[:2]
        out["violations"] += d.get("violations", [])
        out["known_hits"] += d.get("known_hits", [])
        out["inconclusive"] += d.get("inconclusive", [])
        out["rule"] = d.get("rule", out["rule"])
    out["samples"] = out["samples"][:4]
    return out


def _run_many(cmds, env, timeout, jobs):
    """run commands in parallel (at most `jobs` at a time); returns list of (rc, stdout, stderr)"""
    import concurrent.futures

    def one(cmd):
        try:
            p = subprocess.run(cmd, cwd=HARNESS, env=env, stdout=subprocess.PIPE, stderr=subprocess.PIPE, text=True, timeout=timeout)
            return (p.returncode, p.stdout, p.stderr)
        except subprocess.TimeoutExpired:
            return (-999, "", "watchdog timeout")

    with concurrent.futures.ThreadPoolExecutor(max_workers=max(1, jobs)) as ex:
        return list(ex.map(one, cmds))


def _sanitizer_excerpt(stderr, markers):
    lines = stderr.splitlines()
    for i, l in enumerate(lines):
        if any(m in l for m in markers):
            return "\n".join(lines[i : i + 40])
    return "\n".join(lines[-30:])


def lane_miri(prop, tier, seed, jobs, params):
    """run a harness runner under Miri, sharded / multi-seeded over processes"""
    t0 = time.time()
    runner = params["runner"]
    lane = "miri:" + runner
    env = dict(ENV)
    base_flags = "-Zmiri-disable-isolation -Zmiri-permissive-provenance"
    env["MIRIFLAGS"] = base_flags
    miri = ["cargo", "+nightly", "miri", "run", "--quiet", "--"]
    # canary (also builds): the tool must flag a deliberately broken program
    canary = params.get("canary", "canary_uaf")
    rc, out, err = _run_many([miri + [canary]], env, 900, 1)[0]
    if "error: Undefined Behavior" not in err and "error: memory leaked" not in err:
        return dict(lane=lane, violations=[], inconclusive=["miri canary %s was not flagged (rc=%s): %s" % (canary, rc, err[-1500:])])
    shards = params.get("shards", 8)
    seeds = params.get("seeds_thorough", 64) if tier == "thorough" else params.get("seeds_quick", 16)
    cmds, envs = [], []
    results = []
    if params.get("mode") == "seeds":
        # concurrency workload: one process per Miri schedule seed
        import concurrent.futures

        def one(k):
            e = dict(env)
            e["MIRIFLAGS"] = base_flags + " -Zmiri-seed=%d -Zmiri-preemption-rate=0.05" % (seed * 1000 + k)
            try:
                p = subprocess.run(miri + [runner, "--jobs", "1", "--seed", str(seed * 1000 + k)], cwd=HARNESS, env=e,
                                   stdout=subprocess.PIPE, stderr=subprocess.PIPE, text=True, timeout=1800)
                return (p.returncode, p.stdout, p.stderr)
            except subprocess.TimeoutExpired:
                return (-999, "", "watchdog timeout")

        with concurrent.futures.ThreadPoolExecutor(max_workers=max(1, jobs)) as ex:
            results = list(ex.map(one, range(seeds)))
    else:
        cmds = [miri + [runner, "--jobs", "1", "--seed", str(seed), "--shard", "%d/%d" % (k, shards)] for k in range(shards)]
        results = _run_many(cmds, env, 3000, jobs)
    reports, violations, inconclusive = [], [], []
    for k, (rc, out, err) in enumerate(results):
        d = _json_line(out)
        if d is not None:
            reports.append(d)
        flagged = "error: Undefined Behavior" in err or "error: memory leaked" in err or "error: unsupported operation" in err
        if flagged:
            first = next((l for l in err.splitlines() if l.startswith("error:")), "error")
            kind = "data_race" if "Data race" in first else ("leak" if "leaked" in first else ("unsupported" if "unsupported" in first else "undefined_behavior"))
            if kind == "unsupported":
                inconclusive.append("miri %s process %d: %s" % (runner, k, first))
                continue
            violations.append(dict(prop=prop, rule="miri_" + kind, detail=_sanitizer_excerpt(err, ["error:"])[:4000],
                                   signature="%s:miri:%s:%s" % (prop, runner, kind), case="%s under Miri, process %d" % (runner, k), index=k, log=[]))
        elif rc != 0 or d is None:
            inconclusive.append("miri %s process %d exited %s without a report: %s" % (runner, k, rc, err[-800:]))
    m = _merge_reports(reports)
    for v in m["violations"]:
        v["prop"] = v.get("prop", prop)
    m["violations"] += violations
    m["inconclusive"] += inconclusive
    m["lane"] = lane
    m["counters"]["miri_processes"] = len(results)
    m["counters"]["miri_reports"] = len(violations)
    m["rule"] = "[under Miri: UB / aliasing / data race / leak interpreter; canary %s flagged first] %s" % (canary, m["rule"])
    m["wall_s"] = round(time.time() - t0, 2)
    return m


def lane_memcheck(prop, tier, seed, jobs, params):
    t0 = time.time()
    runner = params["runner"]
    lane = "memcheck:" + runner
    exe = os.path.join(HARNESS, "target", "release", "hlmon")
    vg = ["valgrind", "-q", "--error-exitcode=9", "--leak-check=full", "--errors-for-leak-kinds=definite,indirect", "--num-callers=30"]
    rc, out, err = _run_many([vg + [exe, "canary_leak"]], ENV, 600, 1)[0]
    if rc != 9:
        return dict(lane=lane, violations=[], inconclusive=["memcheck canary (leak) was not flagged: rc=%s %s" % (rc, err[-800:])])
    rc, out, err = _run_many([vg + [exe, runner, "--leakcheck", "--jobs", "2", "--seed", str(seed)] + (["--thorough"] if tier == "thorough" else [])], ENV, 3000, 1)[0]
    d = _json_line(out) or {}
    m = _merge_reports([d] if d else [])
    if rc == 9:
        m["violations"].append(dict(prop=prop, rule="memcheck_report", detail=_sanitizer_excerpt(err, ["=="])[:4000],
                                    signature="%s:memcheck:%s" % (prop, runner), case="%s under valgrind memcheck" % runner, index=0, log=[]))
    elif rc != 0 or not d:
        m["inconclusive"].append("memcheck run exited %s: %s" % (rc, err[-800:]))
    m["lane"] = lane
    m["counters"]["memcheck_error_reports"] = 1 if rc == 9 else 0
    m["rule"] = "[under valgrind memcheck --leak-check=full, definite+indirect leaks and invalid accesses are errors; canary leak flagged first] " + m["rule"]
    m["wall_s"] = round(time.time() - t0, 2)
    return m


def lane_tsan(prop, tier, seed, jobs, params):
    t0 = time.time()
    runner = params["runner"]
    lane = "tsan:" + runner
    env = dict(ENV)
    env["RUSTFLAGS"] = "-Zsanitizer=thread"
    tdir = os.path.join(HARNESS, "target", "tsan")
    p = subprocess.run(["cargo", "+nightly", "build", "--release", "--offline", "-Zbuild-std", "--target", "x86_64-unknown-linux-gnu", "--target-dir", tdir],
                       cwd=HARNESS, env=env, stdout=subprocess.PIPE, stderr=subprocess.STDOUT, text=True)
    exe = os.path.join(tdir, "x86_64-unknown-linux-gnu", "release", "hlmon")
    if p.returncode != 0 or not os.path.exists(exe):
        return dict(lane=lane, violations=[], inconclusive=["TSan build failed: " + p.stdout[-1500:]])
    env2 = dict(ENV)
    env2["TSAN_OPTIONS"] = "exitcode=66 halt_on_error=0 second_deadlock_stack=1"
    rc, out, err = _run_many([[exe, "canary_race"]], env2, 600, 1)[0]
    if rc != 66 or "ThreadSanitizer: data race" not in err:
        return dict(lane=lane, violations=[], inconclusive=["TSan canary (race) was not flagged: rc=%s" % rc])
    reps = params.get("reps_thorough", 8) if tier == "thorough" else params.get("reps_quick", 2)
    cmds = [[exe, runner, "--seed", str(seed * 100 + k)] + (["--thorough"] if tier == "thorough" else []) for k in range(reps)]
    results = _run_many(cmds, env2, 3000, max(1, jobs // 8))
    reports, violations, inconclusive = [], [], []
    for k, (rc, out, err) in enumerate(results):
        d = _json_line(out)
        if d is not None:
            reports.append(d)
        if "WARNING: ThreadSanitizer" in err:
            n = err.count("WARNING: ThreadSanitizer")
            violations.append(dict(prop=prop, rule="tsan_report", detail=("%d report(s); first:\n" % n) + _sanitizer_excerpt(err, ["WARNING: ThreadSanitizer"])[:4000],
                                   signature="%s:tsan:%s" % (prop, runner), case="%s under ThreadSanitizer, run %d" % (runner, k), index=k, log=[]))
        elif rc != 0 or d is None:
            inconclusive.append("tsan run %d exited %s: %s" % (k, rc, err[-800:]))
    m = _merge_reports(reports)
    m["violations"] += violations
    m["inconclusive"] += inconclusive
    m["lane"] = lane
    m["counters"]["tsan_runs"] = len(results)
    m["counters"]["tsan_reports"] = len(violations)
    m["rule"] = "[under ThreadSanitizer (release, -Zbuild-std); canary race flagged first] " + m["rule"]
    m["wall_s"] = round(time.time() - t0, 2)
    return m


import corpus  # noqa: E402

LANE_FUNCS = {"hlmon": lane_hlmon, "miri": lane_miri, "memcheck": lane_memcheck, "tsan": lane_tsan,
              "corpus": corpus.lane_corpus, "matrix": corpus.lane_matrix}


def load_known():
    if not os.path.exists(KNOWN):
        return []
    d = json.load(open(KNOWN))
    return d.get("findings", [])


def run_property(prop, tier, seed, jobs):
    t0 = time.time()
    spec = PROPS[prop]
    os.makedirs(EVID, exist_ok=True)
    os.makedirs(REPLAYS, exist_ok=True)
    for f in glob.glob(os.path.join(REPLAYS, prop + "-*.json")):
        os.remove(f)
    ok, msg = build_harness()
    if not ok:
        print("INCONCLUSIVE property=%s harness build failed against the current tree:\n%s" % (prop, msg))
        return 2
    log("[%s] %s" % (prop, msg))
    results = []
    for kind, params in spec["lanes"]:
        if tier == "quick" and params.get("thorough_only"):
            continue
        r = LANE_FUNCS[kind](prop, tier, seed, jobs, params)
        results.append(r)
        log("[%s] lane %s: evaluations=%s nontrivial=%s violations=%d inconclusive=%d wall=%ss" % (
            prop, r.get("lane"), r.get("evaluations"), r.get("distinct_nontrivial"),
            len(r.get("violations", [])), len(r.get("inconclusive", [])), r.get("wall_s")))

    known = [k for k in load_known() if k["property"] == prop]
    mine, others = [], {}
    for r in results:
        for v in r.get("violations", []):
            if v["prop"] == prop:
                v["lane"] = r.get("lane")
                v["replay_cmd"] = r.get("replay_cmd")
                mine.append(v)
            else:
                others[v["prop"]] = others.get(v["prop"], 0) + 1
    new, reproduced = [], {}
    for r in results:
        for h in r.get("known_hits", []):
            if h["prop"] != prop:
                continue
            k = next((k for k in known if k["signature"] == h["signature"]), None)
            if k is None:
                continue
            e = reproduced.setdefault(k["signature"], dict(k=k, n=0, example=h))
            e["n"] += h["count"]
    for v in mine:
        k = next((k for k in known if k["signature"] == v["signature"]), None)
        if k is not None:
            reproduced.setdefault(k["signature"], dict(k=k, n=0, example=v))
            reproduced[k["signature"]]["n"] += 1
        else:
            new.append(v)
    inconclusive = [m for r in results for m in r.get("inconclusive", [])]

    # ---- evidence
    evaluations = sum(int(r.get("evaluations", 0) or 0) for r in results)
    nontrivial = sum(int(r.get("distinct_nontrivial", 0) or 0) for r in results)
    samples = []
    for r in results:
        for s in r.get("samples", [])[:4]:
            samples.append(dict(lane=r.get("lane"), case=s))
    rule = " || ".join("[%s] %s" % (r.get("lane"), r.get("rule", "")) for r in results if r.get("rule"))
    coverage = dict(
        evaluations=evaluations,
        distinct_nontrivial=nontrivial,
        rule=rule,
        samples=samples,
        exhaustive=all(bool(r.get("exhaustive")) for r in results) if results else False,
        lanes=[
            dict(
                lane=r.get("lane"),
                evaluations=r.get("evaluations"),
                distinct_nontrivial=r.get("distinct_nontrivial"),
                counters=r.get("counters", {}),
                exhaustive=r.get("exhaustive", False),
                wall_s=r.get("wall_s"),
                notes=r.get("notes", []),
            )
            for r in results
        ],
        other_property_violations_seen=others,
        known_findings_reproduced=[
            dict(signature=s, count=x["n"], what=x["k"].get("what", "")) for s, x in reproduced.items()
        ],
        inconclusive=inconclusive,
    )
    if spec["level"] == "other":
        coverage["explanation"] = spec.get("explanation", "")
    ev = dict(
        property_id=prop,
        tier=tier,
        seed=seed,
        level=spec["level"],
        coverage=coverage,
        assumptions=ASSUMPTIONS["_common"] + ASSUMPTIONS.get(prop, []),
        wall_s=round(time.time() - t0, 2),
        violations=len(new),
    )
    with open(os.path.join(EVID, prop + ".json"), "w") as f:
        json.dump(ev, f, indent=1)

    # ---- verdict
    for s, x in reproduced.items():
        print("KNOWN-FINDING: property=%s %s (%d occurrence(s) this run; signature %s)" % (prop, x["k"].get("what", ""), x["n"], s))
    if new:
        seen = set()
        n = 0
        for v in new:
            key = (v["signature"], v.get("case"))
            if key in seen:
                continue
            seen.add(key)
            n += 1
            if n > 10:
                break
            path = os.path.join(REPLAYS, "%s-%d.json" % (prop, n))
            with open(path, "w") as f:
                json.dump(dict(property=prop, tier=tier, seed=seed, violation=v), f, indent=1)
            print("VIOLATION property=%s replay=%s" % (prop, path))
            print("  rule=%s  %s" % (v["rule"], v["detail"][:400]))
            print("  case: %s" % (v.get("case", "")[:400]))
        return 1
    if inconclusive:
        for m in inconclusive[:10]:
            print("INCONCLUSIVE property=%s %s" % (prop, m[:500]))
        return 2
    if evaluations == 0 or nontrivial < 2:
        print("INCONCLUSIVE property=%s nothing non-trivial was observed (evaluations=%d, non-trivial=%d)" % (prop, evaluations, nontrivial))
        return 2
    print("OK property=%s tier=%s seed=%d: held on %d evaluations (%d distinct non-trivial) in %.1fs" % (
        prop, tier, seed, evaluations, nontrivial, time.time() - t0))
    return 0


def replay(prop, path):
    d = json.load(open(path))
    v = d["violation"]
    cmd = v.get("replay_cmd")
    print("replaying %s: rule=%s\n  %s\n  case: %s" % (path, v["rule"], v["detail"], v.get("case")))
    if not cmd:
        print("(no replay command recorded for lane %s; the record above is the witness)" % v.get("lane"))
        return 0
    ok, msg = build_harness()
    if not ok:
        print(msg)
        return 2
    cmd = [c for c in cmd]
    # drop --out FILE so the report goes to stdout
    if "--out" in cmd:
        i = cmd.index("--out")
        del cmd[i : i + 2]
    cmd += ["--only", str(v["index"]), "--verbose"]
    print("+ " + " ".join(cmd))
    p = subprocess.run(cmd, cwd=ROOT, env=ENV, stdout=subprocess.PIPE, text=True)
    try:
        r = json.loads(p.stdout)
    except Exception:
        print(p.stdout[-3000:])
        return 2
    hits = [x for x in r.get("violations", []) if x["prop"] == prop]
    for x in hits[:5]:
        print("VIOLATION property=%s replay=%s" % (prop, path))
        print("  rule=%s %s" % (x["rule"], x["detail"]))
    return 1 if hits else 0
