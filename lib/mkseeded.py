#!/usr/bin/env python3
"""Assemble /verif/seeded/<id>/ from the sub-agents' deliverables (/tmp/seed-Cxx/changeN),
my verification results (/tmp/verify-results) and the detection matrix (/tmp/detect/results)."""
import json
import os
import shutil
import sys

sys.path.insert(0, os.path.dirname(os.path.abspath(__file__)))

SLUGS = {
    "C01_change1": ("ref-sort-key-typo", "get_locks sorts by the address of the vector slot instead of the lock (one dropped `*`): Ref collections lock in listing order and Ref::try_new misses non-adjacent duplicates", "two Ref collections listing shared locks in opposite orders + the interleaving; or a non-adjacent duplicate"),
    "C01_change2": ("retry-read-rollback-unlocks-exclusive", "RetryingLockCollection::raw_read rolls back with unlock_all_writes", "a retrying read that has to retry while another reader holds an already-acquired member, then a writer"),
    "C02_change1": ("try-read-rollback-unlocks-exclusive", "ordered_try_read rolls back refused try_read with unlock_all_writes (wipes other readers on parking_lot)", "try_read refused at a non-first member while another thread reads an earlier member, then a writer"),
    "C02_change2": ("retry-write-rollback-double-release", "retrying raw_write rollback releases locks[first_index] unconditionally (twice when first_index < i)", "contention on a later member and a third thread grabbing the given-back lock inside the rollback window"),
    "C03_change1": ("retry-read-first-lock-kept-across-retry", "first_locked is set only inside the scan loop of raw_read, so a failure before first_index leaves the blocked-on lock read-held", "retrying read, three-party interleaving failing first at j > 0 and then at i < j"),
    "C03_change2": ("failed-try-rolls-back-nothing", "ordered_try_* rollback slice uses locked.get() after locked.set(0): always empty", "a try on a sorted/owned collection refused at sorted position >= 1"),
    "C04_change1": ("retry-held-count-not-prefix", "retrying raw_write/raw_read count successes instead of tracking the held prefix; rollback leaves locks[i-1] held", "retrying collection of >= 3 leaves with the failing member >= first_index + 2"),
    "C04_change2": ("nested-get-ptrs-replaces-list", "Boxed/Ref get_ptrs use clone_from instead of extend: a nested sorted collection drops the leaves of preceding siblings", "a sorted collection nested after a sibling in any outer collection"),
    "C05_change1": ("retry-release-condition-weakened", "Held::release releases first_index separately only when locked == 0", "retrying collection of >= 3 members, two consecutive contended rounds (index >= 2, then a middle index)"),
    "C05_change2": ("try-read-rollback-unlocks-exclusive-2", "same site as C02_change1 (independently seeded): ordered_try_read rollback uses unlock_all_writes", "failed collection try_read with another reader on an earlier member"),
    "C06_change1": ("scoped-try-drops-owned-key-early", "collections' scoped_try_* use ok_or(key)?: an owned key is dropped right after acquisition, before the closure runs", "collection + scoped_try + owned key + probe from inside the closure"),
    "C06_change2": ("mutex-scoped-key-lost-on-unwind", "Mutex::scoped_lock/scoped_try_lock wrap the key in ManuallyDrop: a panicking closure leaks the owned key for the life of the thread", "Mutex scoped call with owned key that unwinds, then ThreadKey::get()"),
    "C07_change1": ("retry-dup-check-adjacent-only", "RetryingLockCollection::try_new reuses ordered_contains_duplicates on an unsorted list", "a duplicate with another lock between the two occurrences"),
    "C07_change2": ("mut-ref-counts-as-owned", "`unsafe impl<T: Lockable> OwnedLockable for &mut T` (was T: OwnedLockable)", "new/new_ref with `&mut` in front of something that only refers to its locks"),
    "C08_change1": ("boxed-new-skips-sort", "BoxedLockCollection::new (and From/Default/FromIterator) no longer sort owned data", "owned input whose listing order differs from address order (&mut members, Vec of boxed collections) and a second sorting collection over the same locks"),
    "C08_change2": ("nested-retry-is-one-unit", "RetryingLockCollection::get_ptrs pushes self instead of its leaves", "a retrying collection nested in a sorting collection, members out of address order"),
    "C09_change1": ("retry-release-contiguous-slices", "Held::release releases either only the waited-for lock or only the prefix", "rescan fails at index i with 0 < i < first_index"),
    "C09_change2": ("retry-write-rollback-unlocks-shared", "retrying raw_write rollback uses unlock_all_reads", "exclusive retrying acquisition over RwLock members with another member contended"),
    "C10_change1": ("poisoned-guard-never-repoisons", "PoisonRef records armed = !is_poisoned at creation; Drop only poisons when armed", "poison, re-acquire (Err guard), clear_poison while holding, panic while still holding"),
    "C10_change2": ("scoped-unwind-unlocks-before-poisoning", "Poisonable::scoped_* unwind handlers release the lock before setting the poison flag", "another thread acquires between the raw unlock and the flag store"),
    "C11_change1": ("scoped-try-read-unwind-unlocks-exclusive", "utils::scoped_try_read's unwind handler calls raw_unlock_write", "panic in a collection's scoped_try_read while another thread holds read access"),
    "C11_change2": ("handle-unwind-skips-when-panicking", "handle_unwind returns try_fn() directly when thread::panicking()", "a scoped call made from a destructor during unwinding whose closure panics (contained in the destructor)"),
    "C12_change1": ("retry-first-locked-flag-stale", "Held::release reads first_locked.get() instead of replace(false)", "retrying blocking acquisition that retries, then a panic in the blocking raw lock of the retry round"),
    "C12_change2": ("try-read-handler-recovers-writes", "ordered_try_read's unwind handler calls attempt_to_recover_writes_from_panic", "panic in raw try_lock_shared at index >= 1"),
    "C13_change1": ("owned-unlock-read-unlocks-exclusive", "OwnedLockCollection::raw_unlock_read uses unlock_all_writes", "owned collection nested in an outer collection whose try_read is refused later, or scoped_read on an owned collection, with another reader present"),
    "C13_change2": ("retry-try-read-rollback-short", "retrying raw_try_read rollback range is one element short after a split_first refactor", "retrying try_read refused at a non-first member"),
    "C14_change1": ("keyable-blanket-borrowmut", "Sealed/Keyable implemented for every K: BorrowMut<ThreadKey>", "a downstream Copy type implementing BorrowMut<ThreadKey> used as a key"),
    "C14_change2": ("lockguard-guard-field-public", "LockGuard::guard made pub", "moving the inner guard out of a LockGuard by value"),
    "C15_change1": ("mutexref-sync-for-send-payload", "unsafe impl Sync for MutexRef requires T: Send instead of T: Sync", "&MutexGuard<Cell<_>> shared by two threads"),
    "C15_change2": ("ref-collection-owned-lockable", "unsafe impl OwnedLockable for RefLockCollection", "two RefLockCollection views of the same locks passed to a constructor that skips the duplicate check"),
    "C16_change1": ("boxed-try-new-reject-leaks", "BoxedLockCollection::try_new checks duplicates on raw parts and leaks the boxed input on rejection", "rejected try_new whose input owns payloads next to a duplicate reference"),
    "C16_change2": ("array-into-inner-swap-remove", "[T; N]::into_inner uses Vec::swap_remove(0): positions scrambled for N >= 3", "into_inner of an array of length >= 3 with positionally distinguishable values"),
    "C17_change1": ("rwlock-debug-releases-exclusive", "RwLock Debug try-reads and then drops an RwLockWriteRef (unlock_exclusive)", "formatting an RwLock that is read-held"),
    "C17_change2": ("mutex-debug-blocks-with-free-key", "Mutex Debug takes the thread's key if it is free and does a blocking lock", "formatting a Mutex held by another thread from a thread whose key is not alive"),
}

SLUGS2 = {
    "C01_change1": ("owned-get-ptrs-exposes-children", "OwnedLockCollection::get_ptrs hands out its children instead of itself: an enclosing sorting collection locks them in address order while owned.lock() uses listing order", "an owned collection whose listing order differs from address order, used both directly and nested in a sorting collection, plus the interleaving"),
    "C01_change2": ("threadkey-get-then-some-again", "ThreadKey::get builds the key eagerly again (then_some): a refused get() releases the key in use, the next get() issues a second key (re-seeds repaired defect D10)", "key in use and ThreadKey::get() called twice"),
    "C02_change1": ("rwlock-scoped-read-double-release-on-panic", "RwLock::scoped_read/scoped_try_read release through a dropped RwLockReadRef but keep the unwind handler: a panicking closure releases twice", "bare RwLock, scoped read, panicking closure, a second concurrent reader, then a writer"),
    "C02_change2": ("poisonable-try-write-takes-shared", "Poisonable's RawLock::raw_try_write forwards to inner.raw_try_read: Poisonable::scoped_try_lock holds only shared access while handing out &mut", "Poisonable over RwLock(s), scoped_try_lock, a concurrent reader or second scoped_try_lock"),
    "C03_change1": ("threadkey-get-forge-eager", "ThreadKey::get uses then_some(Self::forge()) (same effect as D10, different spelling)", "key out, then get() called twice on the same thread"),
    "C03_change2": ("unlock-all-plain-loop", "utils::unlock_all is a plain loop again: a panicking unlock leaves every later lock held while the key goes back (re-seeds repaired defect D6)", "a raw lock whose unlock panics, not last in lock order, released through a collection"),
    "C04_change1": ("owned-try-blocks-after-first", "OwnedLockCollection::raw_try_write/read try only the first leaf and take the rest with the blocking ordered_*", "owned collection with >= 2 leaves, a try call, another thread mid-release (member 0 released, member 1 still held)"),
    "C04_change2": ("poisonable-try-leaks-when-poisoned", "Poisonable::raw_try_* return inner.raw_try_*() && !is_poisoned(): on a poisoned wrapper the inner locks are taken and false is returned without releasing", "Poisonable already poisoned + scoped_try_lock / scoped_try_read"),
    "C05_change1": ("rwlock-scoped-try-read-double-release", "RwLock::scoped_try_read releases via a guard and keeps the old unwind handler: a panicking closure releases twice", "bare RwLock, scoped_try_read, panicking closure"),
    "C05_change2": ("ref-try-read-builds-guard-first", "RefLockCollection::try_read builds the LockGuard before raw_try_read; a refusal drops the read guards and releases locks it never acquired", "Ref collection, guard API, try_read refused by a writer on one member"),
    "C06_change1": ("keycell-claim-counter", "KeyCell counts claims: a refused get() adds a claim that is never rolled back, so after the key is dropped get() returns None for ever", "a get() issued while the key is alive, then the key is dropped"),
    "C06_change2": ("collection-unlock-double-frees-key", "collections' unlock/unlock_read go through LockGuard::into_key which ptr::reads the key and then drops self (dropping the key too)", "key handed back through a collection's unlock, then get() while that key is held"),
    "C07_change1": ("dup-check-disjoint-pairs", "ordered_contains_duplicates uses chunks_exact(2) instead of windows(2)", ">= 3 locks with an odd number of listed locks below the duplicated one in address order"),
    "C07_change2": ("owned-collection-shared-iteration", "OwnedLockCollection gains IntoIterator for &/&mut, iter(), iter_mut(): members reachable by shared reference can be listed next to their owner", "try_new((&owned, member)) with member obtained through iter()"),
    "C08_change1": ("ordered-read-takes-free-locks-first", "ordered_read try-reads every lock first and then blocks on the refused ones while holding the others", "blocking read with a lower-address member write-held at that moment"),
    "C08_change2": ("owned-raw-read-sorted", "OwnedLockCollection::raw_read uses get_locks (sorted) while every other method uses listing order", "owned collection whose listing order differs from address order, read vs write through sorting collections"),
    "C09_change1": ("retry-read-waits-for-last-member", "retrying raw_read blocks in place on the last member when its try-read is refused, keeping the other members read-held", "retrying read, >= 2 locks, refused member is the last one"),
    "C09_change2": ("rwlock-try-read-falls-back-to-blocking", "RwLock::raw_try_read blocks on lock_shared when the try failed but is_locked_exclusive() says no writer holds it (check-then-act)", "a writer releasing between the failed try and the check, then another writer"),
    "C10_change1": ("poisonable-lock-samples-flag-early", "Poisonable::lock reads the poison flag before blocking on the inner lock", "a thread already blocked inside lock() when the holder panics"),
    "C10_change2": ("poison-flag-toggles", "PoisonFlag::poison uses fetch_xor: a second panic without clear_poison un-poisons", "two panics through holds on the same Poisonable with no clear in between"),
    "C11_change1": ("rwlock-scoped-try-read-double-release-2", "same site as C05_change1 (independently seeded)", "bare RwLock scoped_try_read with a panicking closure"),
    "C11_change2": ("collection-scoped-read-no-unwind-handler", "utils::scoped_read lost its handle_unwind: a panicking closure leaks shared access to every member", "a panic inside a collection's blocking scoped_read"),
    "C12_change1": ("unlock-all-single-catch", "unlock_all wraps the whole loop in one catch_unwind and releases the tail unprotected", ">= 3 locks with two panicking releases followed by a healthy lock"),
    "C12_change2": ("read-ref-drop-bypasses-kill", "RwLockReadRef::drop calls raw.unlock_shared() directly: a panicking release no longer kills the lock", "read guard drop with a panicking unlock_shared, then any acquisition"),
    "C13_change1": ("poisonable-inherits-exclusive-read-defaults", "RawLock read methods get exclusive defaults and Poisonable's read delegations are deleted", "Poisonable scoped_try_read / scoped_read with a concurrent reader"),
    "C13_change2": ("rwlock-scoped-try-write-shared", "RwLock::scoped_try_write acquires and releases in shared mode", "bare RwLock, scoped_try_write while read-held by another thread"),
    "C14_change1": ("mutexguard-send-with-guardsend", "unsafe impl Send for MutexGuard where R::GuardMarker: Send", "a raw mutex whose GuardMarker is GuardSend"),
    "C14_change2": ("read-ref-clone", "impl Clone for RwLockReadRef (the clone takes another share)", "cloning a read hold out of a collection guard, then unlock_read"),
    "C15_change1": ("ref-new-without-owned-bound", "RefLockCollection::new moved into the impl block without the OwnedLockable bound", "Ref::new over references containing a duplicate"),
    "C15_change2": ("boxed-child-free-lifetime", "BoxedLockCollection::child returns &'a L with a free lifetime", "letting the result of child() outlive the collection"),
    "C16_change1": ("boxed-drop-skips-when-panicking", "Drop for BoxedLockCollection returns early when thread::panicking()", "a boxed collection dropped by an unwind"),
    "C16_change2": ("boxed-into-iter-ptr-read", "IntoIterator for BoxedLockCollection ptr::reads the child without forgetting self: every value is dropped twice", "consuming into_iter of a boxed collection with an iterable child"),
    "C17_change1": ("ref-debug-locks-collection", "RefLockCollection Debug try-locks the first lock and takes the rest with the blocking ordered_write", "formatting a Ref collection whose first lock is free and another member is held"),
    "C17_change2": ("boxed-debug-probe-leaks", "BoxedLockCollection Debug probes members with raw_try_read via any() and never rolls back on short-circuit", "formatting a boxed collection with a non-first member write-held"),
}

SLUGS3 = {
    "C01_change1": ("ref-read-listing-order", "RefLockCollection::raw_read locks get_locks_unsorted(data) (listing order) while every other path uses the sorted list", "Ref collection, blocking read, >= 2 locks listed against address order, a concurrent sorted writer and the interleaving"),
    "C02_change1": ("mutex-unlock-releases-twice", "Mutex::unlock(guard) releases the raw mutex explicitly and then again through the guard's destructor", "Mutex::unlock (not drop) while another thread is waiting for / takes the mutex in the window"),
    "C03_change1": ("post-block-kill-check-leaks", "ordered_write/read re-check a 'killed' flag after each blocking acquisition and panic without releasing the raw lock just taken", "a lock that is killed (unlock panicked earlier) acquired again through a collection"),
    "C04_change1": ("ordered-dropguard-releases-on-success-while-panicking", "ordered_write/read use a drop guard that is not disarmed on success when thread::panicking(): an acquisition made from a destructor during unwinding reports success with nothing held", "a blocking collection acquisition made inside a destructor that runs during an unwind"),
    "C05_change1": ("scoped-write-unlock-inside-protected-closure", "utils::scoped_write moves raw_unlock_write inside the closure protected by handle_unwind: a release that panics half-way is followed by a second full release", "a collection scoped_lock whose unlock panics at one member"),
    "C06_change1": ("scoped-unwind-releases-key-cell", "collections' scoped helpers release the thread's key cell in their unwind handler even when the key was only lent (&mut ThreadKey)", "scoped call with a borrowed key whose closure panics, caught, then ThreadKey::get() while the original key is alive"),
    "C07_change1": ("boxed-get-ptrs-set-union", "BoxedLockCollection::get_ptrs merges its sorted list into the caller's with a set-union merge that drops equal addresses: a duplicate shared between a nested boxed collection and its sibling disappears before the duplicate check", "try_new over a boxed collection plus a reference to one of its members"),
    "C08_change1": ("boxed-sorts-by-offset-from-own-allocation", "BoxedLockCollection sorts by address.wrapping_sub(own allocation address): locks below the collection's box sort after those above it", "two boxed collections over the same external locks whose boxes lie on different sides of them"),
    "C09_change1": ("retry-max-rollbacks-then-block-in-place", "RetryingLockCollection gives up rolling back after 3 rounds and blocks in place on the refused member while holding the others", "retrying collection refused 3 times in one acquisition"),
    "C10_change1": ("poisonable-unlock-skips-poisonref-drop", "Poisonable::unlock/unlock_read forget the PoisonRef (mem::forget) before releasing: an unlock during unwinding does not poison", "Poisonable::unlock(guard) called from a destructor while the thread is panicking"),
    "C11_change1": ("poisonable-scoped-fast-path-when-poisoned", "Poisonable::scoped_* call the closure without handle_unwind when the wrapper is already poisoned: a panic there leaks the inner lock", "already-poisoned Poisonable, scoped call whose closure panics"),
    "C12_change1": ("retry-try-write-rollback-before-reset", "retrying raw_try_write's unwind handler releases before locked.set(0)-style reset: a panicking try at member i releases members it never took", "retrying try_lock with a panicking raw try at index >= 1"),
    "C13_change1": ("retry-try-write-rollback-saturating", "retrying raw_try_write rolls back 0..=i.saturating_sub(1): releases locks[0] when the first member itself refuses", "retrying try_lock refused at member 0 while another thread holds it"),
    "C14_change1": ("poisonable-scoped-try-read-any-key", "Poisonable::scoped_try_read lost its Keyable bound: any value is accepted in the key position", "Poisonable over a Sharable + scoped_try_read with a non-key argument"),
    "C15_change1": ("rwlock-scoped-try-read-ref-escapes", "RwLock::scoped_try_read's closure takes &'a T again (re-seeds part of repaired defect D3a)", "returning the reference out of the closure"),
    "C16_change1": ("boxed-slice-into-inner-reversed", "Box<[T]>::into_inner collects the values in reverse", "into_inner of a collection over a boxed slice with >= 2 distinguishable values"),
    "C17_change1": ("poisonable-debug-leaks-probe-when-poisoned", "Poisonable Debug probes the inner lock with a try and returns early without releasing when the wrapper is poisoned", "formatting a poisoned, currently free Poisonable"),
}

SLUGS4 = {
    "C01_change1": ("retry-first-index-shared-between-threads", "RetryingLockCollection keeps the index of the member it blocks on in an AtomicUsize field of the collection instead of a local: two threads inside lock() of the same instance overwrite each other's index, one releases a lock it never took and then waits for a lock it holds itself", "one retrying collection instance shared by >= 2 threads, >= 2 members, blocking API, a refused try in the window"),
    "C02_change1": ("mutex-zero-sized-payload-fast-path", "Mutex::raw_write / raw_try_write / raw_unlock_write return immediately when the payload is zero-sized ('nothing to race on'): Mutex<()> never excludes anyone", "a Mutex whose payload type is zero-sized and a second contender"),
    "C03_change1": ("poisonable-try-read-acquires-twice", "Poisonable::try_read calls self.read(key) (blocking, acquires again) instead of self.read_guard(key) after the successful raw_try_read: shared access is taken twice and released once", "Poisonable over a Sharable, guard-returning try_read that succeeds, then any exclusive acquisition"),
    "C04_change1": ("owned-read-uses-try-and-ignores-result", "OwnedLockCollection::read calls raw_try_read() and discards the bool: when refused it returns a guard with nothing held", "owned collection used directly, blocking guard read, another thread holding a member exclusively at that moment"),
    "C05_change1": ("rwlock-try-read-gives-back-unacquired-share", "RwLock::raw_try_read re-checks the kill flag after the raw attempt and calls raw_unlock_read() whether or not the attempt succeeded", "read try path, refused attempt, the lock killed by another thread's panicking raw op between the early check and the re-check"),
    "C06_change1": ("threadkey-get-succeeds-while-panicking", "ThreadKey::get hands out a key whenever thread::panicking(), even if the thread's key is alive", "a destructor that calls ThreadKey::get() during an unwind while the thread's key is still alive further up the stack"),
    "C07_change1": ("retry-dup-check-head-tail-split", "RetryingLockCollection's contains_duplicates compares the first four addresses pairwise and only the rest through the hash set, never head against tail", "a duplicate whose first occurrence is among the first four flattened locks and whose second is at position five or later"),
    "C08_change1": ("ref-try-new-stores-descending-order", "RefLockCollection::try_new builds its list by popping the sorted vector: the stored order is descending", "a try_new-built ref collection used directly against a boxed / Ref::new collection over the same locks"),
    "C09_change1": ("retry-read-guard-uses-ordered-read", "RetryingLockCollection::read (guard API) takes its members with blocking ordered_read in listing order instead of raw_read", "retrying collection, blocking guard read, >= 2 members, a writer on a non-first member"),
    "C10_change1": ("poison-flag-stored-not-set", "PoisonRef::drop calls a new PoisonFlag::done(panicking) that stores the boolean: any guard released without panicking un-poisons the wrapper", "poison, then a guard-based acquisition released normally without clear_poison, then observe"),
    "C11_change1": ("collection-scoped-try-write-swallows-panic", "utils::scoped_try_write catches the closure's panic, releases, and returns Err(key) instead of resuming the panic", "collection scoped_try_lock that succeeds with a panicking closure"),
    "C12_change1": ("recover-from-panic-swallows-release-panic", "attempt_to_recover_{writes,reads}_from_panic wrap unlock_all_* in catch_unwind and discard the result; RetryingLockCollection::raw_try_* use them for the ordinary rollback, so a panicking release there is swallowed", "retrying try_lock / try_read refused at index >= 1 with a panicking release of an earlier member"),
    "C13_change1": ("boxed-try-contention-hint", "BoxedLockCollection remembers which member refused the last try and probes it first next time; the rollback releases only the prefix, so a probed member above the refusing index stays held", "two refused attempts on the same boxed collection: first refused by index j >= 1, second by a lower index while j is free"),
    "C14_change1": ("lockguard-into-iterator-by-value", "impl IntoIterator for LockGuard<Guard> returns self.guard.into_iter() and drops the key field", "iterating a collection guard of an array / Vec / boxed slice by value, then ThreadKey::get()"),
    "C15_change1": ("boxed-sync-for-send-child", "unsafe impl<L: Send> Sync for BoxedLockCollection<L> (was L: Sync)", "owning boxed collection over RwLock<Cell<_>> shared by reference between threads"),
    "C16_change1": ("array-get-mut-index-wrap", "[T; N]::get_mut indexes with i & (N - 1): for N == 3 position 0 is returned twice and position 1 never", "get_mut on a collection over an array of exactly three locks"),
    "C17_change1": ("debug-helper-returns-before-unlock", "Mutex/RwLock Debug share a helper that try-locks, writes with `?` and then unlocks by hand: a failing formatter / panicking payload Debug leaves the lock held", "formatting a free lock into a sink that returns Err (or a payload whose Debug fails) at that moment"),
}

SLUGS5 = {
    "C01_change1": ("killed-lock-release-skipped", "Mutex::raw_unlock_write / RwLock::raw_unlock_{write,read} return at once when the lock has been killed: a holder's release is skipped and threads already parked in that lock wait for ever", "a lock killed (another thread's raw op panics) while it is held and a third thread is blocked on it"),
    "C02_change1": ("poisonable-scoped-read-drops-guard-at-once", "Poisonable::scoped_read binds its releasing read guard to `_`: shared access is given back before the closure runs", "Poisonable over RwLock(s), blocking scoped_read, a writer arriving during the closure"),
    "C03_change1": ("owned-raw-write-plain-loop", "OwnedLockCollection::raw_write / raw_read are plain loops over get_locks_unsorted without the unwind rollback of ordered_*: a panic while acquiring member k >= 1 leaves members 0..k locked while the key goes back", "owned collection with >= 2 members, blocking call, a killed / panicking member other than the first"),
    "C04_change1": ("slice-get-ptrs-empty-first-element", "[T; N] / Box<[T]> / Vec<T>::get_ptrs share a helper that returns early when the FIRST element lists no locks: [[], [a, b]] lists nothing", "depth-2 nesting of slice-like containers with an empty inner container in position 0"),
    "C05_change1": ("killed-lock-release-skipped-2", "same site as C01-7 (independently seeded): leaf release functions return early once the kill flag is set", "a lock killed by another thread's panicking raw op while a valid hold on it is alive"),
    "C06_change1": ("threadkey-get-refuses-while-panicking", "ThreadKey::get returns None whenever thread::panicking(), even if the thread's key is free", "get() from a destructor during an unwind while no key of the thread is alive"),
    "C07_change1": ("boxed-slice-owned-for-static-lockable", "unsafe impl<T: Lockable + 'static> OwnedLockable for Box<[T]> (was T: OwnedLockable): a boxed slice of &'static locks counts as owned", "new / new_ref over Box<[&'static Mutex]> containing a duplicate"),
    "C08_change1": ("ordered-write-backoff-retakes-lower-locks", "ordered_write tries later locks first; on refusal it releases the prefix, blocks on the refused lock, keeps it and re-takes the lower ones with blocking calls", "write mode, >= 2 locks, contention on a lock other than the lowest at the moment the collection reaches it"),
    "C09_change1": ("poisonable-raw-ops-flatten-retrying-child", "Poisonable's RawLock raw_* go through get_locks_unsorted + ordered_* instead of forwarding to the inner lock: a wrapped retrying collection blocks member by member in listing order", "Poisonable<RetryingLockCollection>, blocking scoped call, contention on a non-first member"),
    "C10_change1": ("scoped-try-lock-kills-inner-instead-of-poisoning", "the unwind handler of Poisonable::scoped_try_lock calls self.poison() (RawLock::poison = kill the inner lock) instead of self.poisoned.poison()", "Poisonable scoped_try_lock that succeeds with a panicking closure"),
    "C11_change1": ("poisonable-scoped-try-raii-sentinel", "Poisonable::scoped_try_lock / scoped_try_read replace handle_unwind by a PoisonRef sentinel that only poisons: a panicking closure leaks the inner lock", "Poisonable used directly, scoped try variant that succeeds, panicking closure"),
    "C12_change1": ("poisonable-scoped-acquires-inside-protected-closure", "Poisonable::scoped_lock / scoped_read acquire inside the handle_unwind closure: a panic during acquisition runs the handler, which poisons and releases the whole wrapped lock / collection (locks never held or already rolled back)", "Poisonable over a collection, blocking scoped call, a raw lock op that panics during acquisition"),
    "C13_change1": ("retry-cached-lock-count-stale-after-extend", "RetryingLockCollection caches its leaf count (OnceLock) and takes the empty-collection early return from it; Extend / AsMut / iter_mut do not reset it", "a retrying collection operated on while empty and then grown with extend(), then any try / lock"),
    "C14_change1": ("mutex-raw-accessor-safe", "Mutex::raw() loses `unsafe`: lock_api::RawMutex::lock is safe, so m.raw().lock() acquires without a key", "calling raw().lock() in safe code, then ThreadKey::get()"),
    "C15_change1": ("owned-default-derive-drops-bound", "OwnedLockCollection derives Default (L: Default) instead of the hand-written impl with L: OwnedLockable", "OwnedLockCollection::<Vec<&Mutex>>::default() filled through child_mut()"),
    "C16_change1": ("into-inner-asserts-not-killed", "Mutex/RwLock::into_inner assert the lock is not killed: consuming a collection with a killed member panics half way ([T; N]::into_inner leaks the values already moved)", "a lock whose raw op panicked once, then into_inner of it or of a collection holding it"),
    "C17_change1": ("rwlock-try-read-no-key-then-some", "RwLock::try_read_no_key uses then_some(RwLockReadRef(..)): a refused try builds the guard and drops it, releasing shared access never taken", "formatting an RwLock whose try-read is refused (write-held, or read-held with a writer queued)"),
}

SLUGS6 = {
    "C01_change1": ("read-guard-skips-release-when-writer-queued", "RwLockReadRef::drop returns without releasing when raw.is_locked_exclusive() is true - which it already is while a writer is merely queued", "guard-API read hold dropped while a writer is blocked on that lock (writer-preferring lock)"),
    "C02_change1": ("poisonable-get-ptrs-empty-when-poisoned", "Poisonable::get_ptrs lists its inner locks only when the wrapper is not poisoned: a collection hands out the data of a poisoned member without holding its lock", "a poisoned Poisonable as member of a collection whose lock list is computed after the poisoning"),
    "C03_change1": ("lockguard-field-order-key-first", "LockGuard declares key before guard: an implicitly dropped collection guard frees the key cell before any member lock is released", "implicit drop of a collection guard with an observer inside the raw unlock"),
    "C04_change1": ("retry-skip-held-member-by-address", "retrying raw_write/raw_read skip the already-held member by address identity instead of index: a zero-sized owned member at the same address as a sibling makes the scan skip a real lock", "retrying collection over a tuple whose position 0 is a zero-sized owned collection, blocking path, first scan unrefused"),
    "C05_change1": ("read-guard-ctor-asserts-not-exclusive", "Sharable::read_guard of RwLock asserts !raw.is_locked_exclusive(): a writer queueing between acquisition and guard construction makes read() panic with the shares held and no guard", "collection / Poisonable guard-API read with a writer starting to wait inside the acquire-to-guard window"),
    "C06_change1": ("rwlock-scoped-write-fast-path-drops-key", "RwLock::scoped_write first calls scoped_try_write(key, ..) and discards Err(key): on a refused first attempt an owned key is dropped before the thread blocks and the closure runs", "RwLock::scoped_write with an owned key on a lock held by another thread at that moment"),
    "C07_change1": ("retry-dup-check-thread-local-not-cleared", "RetryingLockCollection's contains_duplicates uses a thread_local scratch set that is not cleared on the early return: after a rejected input the next duplicate-free input sharing a lock is rejected too", "a rejected try_new followed, on the same thread, by a duplicate-free try_new over some of the same locks"),
    "C08_change1": ("sorting-network-for-four-incomplete", "a shared sort_locks helper sorts lists of 4 with a fixed compare-and-swap sequence that lacks its last step: 6 of the 24 listings of 4 locks are stored with the two lowest swapped", "a sorting collection over exactly 4 leaves whose lowest-addressed lock is listed last"),
    "C09_change1": ("retry-scan-wraps-but-release-does-not", "the retrying scan continues after the blocked-on member and wraps around, Held::release rebuilds the held set without wrapping: members taken after the wrap are left out of the rollback", ">= 3 members, a round refused at index >= 2, then a round where index 0 is taken after the wrap and a member in 1..first refuses"),
    "C10_change1": ("poisonref-records-panicking-at-creation", "PoisonRef records thread::panicking() at creation and poisons only if it was false then (std's bookkeeping): a hold that begins during an unwind never poisons", "guard-API hold taken in a destructor during an unwind whose section panics (contained)"),
    "C11_change1": ("rwlock-scoped-unwind-guesses-mode", "the unwind handlers of RwLock::scoped_* release exclusive or shared depending on raw.is_locked_exclusive(), which is already true while a writer is queued", "panic in a bare RwLock's scoped_read closure while a writer is blocked behind it"),
    "C12_change1": ("killed-assert-only-in-public-leaf-methods", "the 'lock has been killed' assertion moves from RawLock::raw_write/raw_read to the public leaf methods: collections and Poisonable no longer refuse a killed lock on their blocking paths", "a killed lock acquired through a collection or Poisonable (blocking)"),
    "C13_change1": ("sorted-try-from-top-rollback-from-bottom", "Boxed/Ref try paths probe from the highest address down but roll back locks[0..i]: a refusal below the top keeps the high locks and releases low ones never taken", "boxed / ref collection, >= 2 locks, try refused by a member below the highest address"),
    "C14_change1": ("try-lock-poisonable-error-send", "unsafe impl<G: Sync> Send for TryLockPoisonableError: the WouldBlock(ThreadKey) / Poisoned(guard) error of a refused Poisonable::try_lock can be sent to another thread", "refused / poisoned Poisonable::try_lock whose error value crosses a thread boundary"),
    "C15_change1": ("rwlock-sync-without-send", "unsafe impl Sync for RwLock requires T: Sync only (was Send + Sync)", "RwLock over a Sync + !Send payload shared with a thread that writes / takes the value"),
    "C16_change1": ("retry-extend-ptr-read-write", "RetryingLockCollection::extend ptr::reads the child, extends the copy and ptr::writes a rebuilt collection back: a panicking iterator drops every existing member while the collection still owns stale bits", "extend() with an iterator that panics part way, caught"),
    "C17_change1": ("get-mut-resets-raw-lock", "LockableGetMut::get_mut of Mutex / RwLock resets the raw lock to INIT before returning &mut T: a lock held through a leaked guard becomes free", "get_mut through the trait (collections, Poisonable, containers) on a lock held through a forgotten guard"),
}

SLUGS7 = {
    "C01_change1": ("rwlock-scoped-read-takes-shared-twice", "RwLock::scoped_read acquires shared access a second time (through a new read_no_key helper) while the first share is held: a writer queueing in between blocks the second acquisition behind itself", "RwLock::scoped_read with a writer starting to wait between the two internal acquisitions (writer-preferring lock)"),
    "C02_change1": ("poisonable-scoped-try-read-unwind-releases-exclusive", "Poisonable::scoped_try_read's unwind handler uses a shared helper that releases in exclusive mode", "Poisonable over RwLock(s), scoped_try_read with a panicking closure while another reader is inside, then a writer"),
    "C03_change1": ("poisonable-raw-unlock-write-forwards-to-read", "Poisonable's RawLock::raw_unlock_write forwards to inner.raw_unlock_read(): scoped_lock / scoped_try_lock on a wrapped RwLock release in shared mode and leave the exclusive hold in place", "Poisonable<RwLock> (or a wrapped collection containing one) through the exclusive scoped API"),
    "C04_change1": ("ordered-read-rollback-one-short", "ordered_read records locked.set(i) instead of counting: the unwind rollback is one lock short, member k-1 stays read-held when acquiring member k panics", "blocking read of a boxed / ref / owned collection with a panic (killed lock) at position >= 1"),
    "C05_change1": ("ordered-acquire-counts-before-acquiring", "ordered_write / ordered_read set their progress counter before the acquisition: the unwind handler also releases the member whose acquisition panicked", "blocking collection acquisition with a member that panics while another thread holds it"),
    "C06_change1": ("collection-scoped-read-key-manuallydrop", "utils::scoped_read / scoped_try_read wrap the key in ManuallyDrop and release it by hand after the closure: a panicking closure leaks an owned key", "collection scoped read with an owned key and a panicking closure, then ThreadKey::get()"),
    "C07_change1": ("ref-try-new-caches-last-verdict", "RefLockCollection::try_new caches (address, count) of the last accepted input per thread and skips the scan when they match", "accept a list, overwrite a slot in place so a lock appears twice, call try_new again on the same storage"),
    "C08_change1": ("boxed-sort-key-drops-low-bits", "BoxedLockCollection sorts by address >> 3: locks inside one 8-byte word compare equal and keep their listing order", "boxed collection over neighbouring small-payload mutexes (Mutex<u8>) listed against address order"),
    "C09_change1": ("retry-pair-fast-path-ordered-write", "RetryingLockCollection::raw_write takes a two-lock collection with the blocking ordered_write", "retrying collection of exactly two locks, write mode, the higher-address member held by another thread"),
    "C10_change1": ("poisonable-get-mut-takes-flag", "Poisonable's get_mut / child_mut read the poison flag with mem::take: the first &mut view of a poisoned wrapper un-poisons it", "poison, get_mut()/child_mut() (directly or through the owning collection), then observe"),
    "C11_change1": ("write-ref-drop-kills-lock-when-panicking", "RwLockWriteRef::drop kills the lock (RawLock::poison) when the guard was mutably dereferenced and the thread is panicking", "guard-API write hold on an RwLock, dereferenced mutably, dropped by a user panic"),
    "C12_change1": ("rwlock-raw-read-slow-path-unprotected", "RwLock::raw_read tries first and takes the blocking slow path without handle_unwind: a panicking lock_shared no longer kills the lock", "contended blocking read whose raw lock_shared panics"),
    "C13_change1": ("poisonable-scoped-try-skips-release-when-poisoned", "Poisonable::scoped_try_lock / scoped_try_read skip their final release when the wrapper is already poisoned", "already-poisoned Poisonable, successful scoped try"),
    "C14_change1": ("threadkey-marker-cell", "ThreadKey's marker becomes PhantomData<Cell<()>>: Cell is Send, the existing unsafe impl Sync cancels !Sync, so ThreadKey becomes Send", "moving a ThreadKey to another thread"),
    "C15_change1": ("boxed-as-mut", "impl AsMut for BoxedLockCollection: the child can be changed structurally after the sorted lock list was recorded", "as_mut() as &mut Vec, push a member, then lock through the collection"),
    "C16_change1": ("retry-try-new-reject-leaks", "RetryingLockCollection::try_new wraps its input in ManuallyDrop and returns None early on a duplicate: a rejected input is never dropped", "rejected try_new whose input owns a value next to a duplicate reference"),
    "C17_change1": ("rwlock-debug-kills-on-payload-panic", "RwLock's Debug formats inside handle_unwind(.., || self.poison()): a panicking payload Debug kills the lock", "formatting a free RwLock whose payload's Debug panics"),
}

ROOT = "/verif/seeded"


def main():
    os.makedirs(ROOT, exist_ok=True)
    items = [(1, k, v) for k, v in sorted(SLUGS.items())] + [(2, k, v) for k, v in sorted(SLUGS2.items())] + [(3, k, v) for k, v in sorted(SLUGS3.items())] + [(4, k, v) for k, v in sorted(SLUGS4.items())] + [(5, k, v) for k, v in sorted(SLUGS5.items())] + [(6, k, v) for k, v in sorted(SLUGS6.items())] + [(7, k, v) for k, v in sorted(SLUGS7.items())]
    only = int(sys.argv[1]) if len(sys.argv) > 1 else None  # `mkseeded.py 7`: assemble round 7 only (keeps the re-detected meta.json of the others)
    for rnd, key, (slug, what, needs) in items:
        if only is not None and rnd != only:
            continue
        prop, ch = key.split("_")
        src = {1: "/tmp/seed-%s/%s", 2: "/tmp/seed2-%s/%s", 3: "/tmp/seed3-%s/%s", 4: "/tmp/seed4-%s/%s", 5: "/tmp/seed5-%s/%s", 6: "/tmp/seed6-%s/%s", 7: "/tmp/seed7-%s/%s"}[rnd] % (prop, ch)
        if not os.path.isdir(src):
            print("missing", src)
            continue
        sid = "%s-%s-%s" % (prop, str(int(ch[-1]) + {1: 0, 2: 2, 3: 4, 4: 5, 5: 6, 6: 7, 7: 8}[rnd]), slug)
        d = os.path.join(ROOT, sid)
        os.makedirs(d, exist_ok=True)
        shutil.copy(os.path.join(src, "patch.diff"), os.path.join(d, "patch.diff"))
        shutil.copy(os.path.join(src, "demo.rs"), os.path.join(d, "demo.rs"))
        for extra in ("demo_stress.rs",):
            if os.path.exists(os.path.join(src, extra)):
                shutil.copy(os.path.join(src, extra), os.path.join(d, extra))
        if os.path.exists(os.path.join(src, "README.md")):
            shutil.copy(os.path.join(src, "README.md"), os.path.join(d, "AUTHOR_README.md"))
        verify = {}
        vf = {1: "/tmp/verify-results/%s.json", 2: "/tmp/verify2-results/%s.json", 3: "/tmp/verify3-results/%s.json", 4: "/tmp/verify4-results/%s.json", 5: "/tmp/verify5-results/%s.json", 6: "/tmp/verify6-results/%s.json", 7: "/tmp/verify7-results/%s.json"}[rnd] % key
        if os.path.exists(vf):
            try:
                verify = json.load(open(vf))
                verify.pop("demo_output_with_change", None)
                verify.pop("demo_output_without_change", None)
            except Exception:
                pass
        detect = {}
        df = {1: "/tmp/detect/results/%s.json", 2: "/tmp/detect/results2/%s.json", 3: "/tmp/detect/results3/%s.json", 4: "/tmp/detect/results4/%s.json", 5: "/tmp/detect/results5/%s.json", 6: "/tmp/detect/results6/%s.json", 7: "/tmp/detect/results7/%s.json"}[rnd] % key
        if os.path.exists(df):
            try:
                detect = json.load(open(df))
            except Exception:
                pass
        # final run of the property's own check with the committed machinery, on /repo itself
        final = {}
        ff = {1: "/tmp/detect/final/%s.json", 2: "/tmp/detect/final2/%s.json", 3: "/tmp/detect/final3/%s.json", 4: "/tmp/detect/final4/%s.json", 5: "/tmp/detect/final5/%s.json", 6: "/tmp/detect/final6/%s.json", 7: "/tmp/detect/final7/%s.json"}[rnd] % key
        if os.path.exists(ff):
            try:
                final = json.load(open(ff))
            except Exception:
                pass
        for p_, r_ in final.items():
            detect[p_] = r_
        caught = sorted(p for p, r in detect.items() if r.get("exit") == 1)
        # rounds 3 and 4: the own check was first run against the change before anybody read the
        # author's description; that first result is kept next to the final one
        first = None
        f1 = "/tmp/detect/first%d/%s.json" % (rnd, key)
        if os.path.exists(f1):
            try:
                first = json.load(open(f1)).get(prop)
            except Exception:
                pass
        meta = dict(
            id=sid,
            breaks_property=prop,
            change=what,
            needs_to_manifest=needs,
            origin="round %d: written by an independent sub-agent that saw only the property text%s and a scratch worktree of /repo" % (rnd, "" if rnd == 1 else " (plus one-line descriptions of the earlier rounds' changes, to avoid repeats)"),
            confirmed=dict(
                how="lib/seedtest.py verify (scratch worktree of /repo at HEAD): patch applies; cargo test --offline --workspace passes with the patch; demo.rs %s" % (
                    "does not compile without the patch and compiles + shows the harm with it" if (prop in ("C14", "C15") or verify.get("demo_passes_without_change") is False) else "passes without the patch and fails with it"),
                result=verify,
            ),
            detection=dict(
                how="own property: `git -C /repo apply patch.diff`, `./check %s --tier quick`, `git -C /repo checkout -- .` (lib/seedtest.py detect) with the committed machinery; other properties: the same procedure on an isolated copy of /repo + /verif during the bulk run (an earlier revision of the machinery; the Miri-heavy checks C02/C14/C15/C16 were only run for their own changes)" % prop,
                own_check_final=final.get(prop),
                first_measured_run=first,
                caught_by=caught,
                per_check={p: dict(exit=r.get("exit"), rules=r.get("rules"), wall_s=r.get("wall")) for p, r in sorted(detect.items())},
            ),
        )
        json.dump(meta, open(os.path.join(d, "meta.json"), "w"), indent=1)
    print("seeded entries:", len(os.listdir(ROOT)))
    import redetect
    redetect.table()


if __name__ == "__main__":
    main()
