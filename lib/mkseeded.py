#!/usr/bin/env python3
"""Assemble /verif/seeded/<id>/ from the sub-agents' deliverables (/tmp/seed-Cxx/changeN),
my verification results (/tmp/verify-results) and the detection matrix (/tmp/detect/results)."""
import json
import os
import shutil
import sys

SLUGS = {
    "C01_change1": ("ref-sort-key-typo", "get_locks sorts by the address of the vector slot instead of the lock (one dropped `*`): Ref collections lock in listing order and Ref::try_new misses non-adjacent duplicates", "two Ref collections listing shared locks in opposite orders + the interleaving; or a non-adjacent duplicate"),
    "C01_change2": ("retry-read-rollback-unlocks-exclusive", "RetryingLockCollection::raw_read rolls back with unlock_all_writes", "a retrying read that has to retry while another reader holds an already-acquired member, then a writer"),
    "C02_change1": ("try-read-rollback-unlocks-exclusive", "ordered_try_read rolls back refused try_read with unlock_all_writes (wipes other readers on parking_lot)", "try_read refused at a non-first member while another thread reads an earlier member, then a writer"),
    "C02_change2": ("retry-write-rollback-double-release", "retrying raw_write rollback releases locks[first_index] unconditionally (twice when first_index < i)", "contention on a later member and a third thread grabbing the given-back lock inside the rollback window"),
    "C03_change1": ("retry-read-first-lock-kept-across-retry", "first_locked is set only inside the scan loop of raw_read, so a failure before first_index leaves the blocked-on lock read-held", "retrying read, three-party interleaving failing first at j > 0 and then at i < j"),
    "C03_change2": ("failed-try-rolls-back-nothing", "ordered_try_* rollback slice uses locked.get() after locked.set(0): always empty", "a try on a sorted/owned collection refused at sorted position >= 1"),
    "C04_change1": ("retry-held-count-not-prefix", "retrying raw_write/raw_read count successes instead of tracking the held prefix; rollback leaves locks[i-1] held", "retrying collection of >= 3 leaves with the failing member >= first_index + 2"),
    "C04_change2": ("nested-get-ptrs-replaces-list", "Boxed/Ref get_ptrs use clone_from instead of extend: a nested sorted collection drops the leaves of preceding siblings", "a sorted collection nested after a sibling in any outer collection"),
    "C05_change1": ("retry-release-condition-weakened", "Held::release releases first_index separately only when locked == 0", "retrying collection of >= 3 members, two consecutive contended rounds (index >= 2, then a middle index)"),
    "C05_change2": ("try-read-rollback-unlocks-exclusive-2", "same site as C02_change1 (independently seeded): ordered_try_read rollback uses unlock_all_writes", "failed collection try_read with another reader on an earlier member"),
    "C06_change1": ("scoped-try-drops-owned-key-early", "collections' scoped_try_* use ok_or(key)?: an owned key is dropped right after acquisition, before the closure runs", "collection + scoped_try + owned key + probe from inside the closure"),
    "C06_change2": ("mutex-scoped-key-lost-on-unwind", "Mutex::scoped_lock/scoped_try_lock wrap the key in ManuallyDrop: a panicking closure leaks the owned key for the life of the thread", "Mutex scoped call with owned key that unwinds, then ThreadKey::get()"),
    "C07_change1": ("retry-dup-check-adjacent-only", "RetryingLockCollection::try_new reuses ordered_contains_duplicates on an unsorted list", "a duplicate with another lock between the two occurrences"),
    "C07_change2": ("mut-ref-counts-as-owned", "`unsafe impl<T: Lockable> OwnedLockable for &mut T` (was T: OwnedLockable)", "new/new_ref with `&mut` in front of something that only refers to its locks"),
    "C08_change1": ("boxed-new-skips-sort", "BoxedLockCollection::new (and From/Default/FromIterator) no longer sort owned data", "owned input whose listing order differs from address order (&mut members, Vec of boxed collections) and a second sorting collection over the same locks"),
    "C08_change2": ("nested-retry-is-one-unit", "RetryingLockCollection::get_ptrs pushes self instead of its leaves", "a retrying collection nested in a sorting collection, members out of address order"),
    "C09_change1": ("retry-release-contiguous-slices", "Held::release releases either only the waited-for lock or only the prefix", "rescan fails at index i with 0 < i < first_index"),
    "C09_change2": ("retry-write-rollback-unlocks-shared", "retrying raw_write rollback uses unlock_all_reads", "exclusive retrying acquisition over RwLock members with another member contended"),
    "C10_change1": ("poisoned-guard-never-repoisons", "PoisonRef records armed = !is_poisoned at creation; Drop only poisons when armed", "poison, re-acquire (Err guard), clear_poison while holding, panic while still holding"),
    "C10_change2": ("scoped-unwind-unlocks-before-poisoning", "Poisonable::scoped_* unwind handlers release the lock before setting the poison flag", "another thread acquires between the raw unlock and the flag store"),
    "C11_change1": ("scoped-try-read-unwind-unlocks-exclusive", "utils::scoped_try_read's unwind handler calls raw_unlock_write", "panic in a collection's scoped_try_read while another thread holds read access"),
    "C11_change2": ("handle-unwind-skips-when-panicking", "handle_unwind returns try_fn() directly when thread::panicking()", "a scoped call made from a destructor during unwinding whose closure panics (contained in the destructor)"),
    "C12_change1": ("retry-first-locked-flag-stale", "Held::release reads first_locked.get() instead of replace(false)", "retrying blocking acquisition that retries, then a panic in the blocking raw lock of the retry round"),
    "C12_change2": ("try-read-handler-recovers-writes", "ordered_try_read's unwind handler calls attempt_to_recover_writes_from_panic", "panic in raw try_lock_shared at index >= 1"),
    "C13_change1": ("owned-unlock-read-unlocks-exclusive", "OwnedLockCollection::raw_unlock_read uses unlock_all_writes", "owned collection nested in an outer collection whose try_read is refused later, or scoped_read on an owned collection, with another reader present"),
    "C13_change2": ("retry-try-read-rollback-short", "retrying raw_try_read rollback range is one element short after a split_first refactor", "retrying try_read refused at a non-first member"),
    "C14_change1": ("keyable-blanket-borrowmut", "Sealed/Keyable implemented for every K: BorrowMut<ThreadKey>", "a downstream Copy type implementing BorrowMut<ThreadKey> used as a key"),
    "C14_change2": ("lockguard-guard-field-public", "LockGuard::guard made pub", "moving the inner guard out of a LockGuard by value"),
    "C15_change1": ("mutexref-sync-for-send-payload", "unsafe impl Sync for MutexRef requires T: Send instead of T: Sync", "&MutexGuard<Cell<_>> shared by two threads"),
    "C15_change2": ("ref-collection-owned-lockable", "unsafe impl OwnedLockable for RefLockCollection", "two RefLockCollection views of the same locks passed to a constructor that skips the duplicate check"),
    "C16_change1": ("boxed-try-new-reject-leaks", "BoxedLockCollection::try_new checks duplicates on raw parts and leaks the boxed input on rejection", "rejected try_new whose input owns payloads next to a duplicate reference"),
    "C16_change2": ("array-into-inner-swap-remove", "[T; N]::into_inner uses Vec::swap_remove(0): positions scrambled for N >= 3", "into_inner of an array of length >= 3 with positionally distinguishable values"),
    "C17_change1": ("rwlock-debug-releases-exclusive", "RwLock Debug try-reads and then drops an RwLockWriteRef (unlock_exclusive)", "formatting an RwLock that is read-held"),
    "C17_change2": ("mutex-debug-blocks-with-free-key", "Mutex Debug takes the thread's key if it is free and does a blocking lock", "formatting a Mutex held by another thread from a thread whose key is not alive"),
}

ROOT = "/verif/seeded"


def main():
    os.makedirs(ROOT, exist_ok=True)
    for key, (slug, what, needs) in sorted(SLUGS.items()):
        prop, ch = key.split("_")
        src = "/tmp/seed-%s/%s" % (prop, ch)
        if not os.path.isdir(src):
            print("missing", src)
            continue
        sid = "%s-%s-%s" % (prop, ch[-1], slug)
        d = os.path.join(ROOT, sid)
        os.makedirs(d, exist_ok=True)
        shutil.copy(os.path.join(src, "patch.diff"), os.path.join(d, "patch.diff"))
        shutil.copy(os.path.join(src, "demo.rs"), os.path.join(d, "demo.rs"))
        for extra in ("demo_stress.rs",):
            if os.path.exists(os.path.join(src, extra)):
                shutil.copy(os.path.join(src, extra), os.path.join(d, extra))
        if os.path.exists(os.path.join(src, "README.md")):
            shutil.copy(os.path.join(src, "README.md"), os.path.join(d, "AUTHOR_README.md"))
        verify = {}
        vf = "/tmp/verify-results/%s.json" % key
        if os.path.exists(vf):
            try:
                verify = json.load(open(vf))
                verify.pop("demo_output_with_change", None)
                verify.pop("demo_output_without_change", None)
            except Exception:
                pass
        detect = {}
        df = "/tmp/detect/results/%s.json" % key
        if os.path.exists(df):
            try:
                detect = json.load(open(df))
            except Exception:
                pass
        # final run of the property's own check with the committed machinery, on /repo itself
        final = {}
        ff = "/tmp/detect/final/%s.json" % key
        if os.path.exists(ff):
            try:
                final = json.load(open(ff))
            except Exception:
                pass
        for p_, r_ in final.items():
            detect[p_] = r_
        caught = sorted(p for p, r in detect.items() if r.get("exit") == 1)
        meta = dict(
            id=sid,
            breaks_property=prop,
            change=what,
            needs_to_manifest=needs,
            origin="written by an independent sub-agent that saw only the property text and a scratch worktree of /repo",
            confirmed=dict(
                how="lib/seedtest.py verify (scratch worktree of /repo at HEAD): patch applies; cargo test --offline --workspace passes with the patch; demo.rs %s" % (
                    "does not compile without the patch and compiles + shows the harm with it" if prop in ("C14", "C15") else "passes without the patch and fails with it"),
                result=verify,
            ),
            detection=dict(
                how="own property: `git -C /repo apply patch.diff`, `./check %s --tier quick`, `git -C /repo checkout -- .` (lib/seedtest.py detect) with the committed machinery; other properties: the same procedure on an isolated copy of /repo + /verif during the bulk run (an earlier revision of the machinery; the Miri-heavy checks C02/C14/C15/C16 were only run for their own changes)" % prop,
                own_check_final=final.get(prop),
                caught_by=caught,
                per_check={p: dict(exit=r.get("exit"), rules=r.get("rules"), wall_s=r.get("wall")) for p, r in sorted(detect.items())},
            ),
        )
        json.dump(meta, open(os.path.join(d, "meta.json"), "w"), indent=1)
    print("seeded entries:", len(os.listdir(ROOT)))
    # markdown table for DESIGN.md §10.3
    rows = []
    for sid in sorted(os.listdir(ROOT)):
        mp = os.path.join(ROOT, sid, "meta.json")
        if not os.path.exists(mp):
            continue
        m = json.load(open(mp))
        own = m["breaks_property"]
        caught = m["detection"]["caught_by"]
        own_rules = (m["detection"]["per_check"].get(own) or {}).get("rules") or []
        rows.append("| `%s` | %s | %s | %s | %s |" % (
            sid, m["change"].replace("|", "/"), "**yes**" if own in caught else "NO",
            ", ".join(r.replace("rule=", "") for r in own_rules[:3]), ", ".join(c for c in caught if c != own) or "-"))
    with open("/verif/seeded/TABLE.md", "w") as f:
        f.write("| seeded change | what it does | caught by its own property's check | rules that fired there | also caught by |\n|---|---|---|---|---|\n")
        f.write("\n".join(rows) + "\n")


if __name__ == "__main__":
    main()
