"""Per-property manifest texts."""

CHECKS = {
    "C01": dict(
        level_text="Exploration by runtime monitoring: thousands of generated small programs are executed on the real happylock API over auditing raw locks under a seeded serialising scheduler (random and priority-based strategies, both rwlock wake policies); a deadlock is decided exactly (no eligible thread while some are unfinished, or a self-wait), never by timeout. Unbounded completion is restated as bounded progress under a fair completion phase. The same episodes are also run with one clean raw-lock panic injected (a lock killed while held / while others are parked on it): they must still complete.",
        design_ref="DESIGN.md §3 C01, §2.3",
        level_note="Trusted: audit lock + scheduler (world.rs), Member/Lk adapters. Holds only for the programs and schedules produced (counts in evidence).",
        technique="runtime monitoring: wait-for/deadlock monitor over audit raw locks under a seeded serialising scheduler",
    ),
    "C02": dict(
        level_text="Exploration by runtime monitoring: a section table (client boundary) and the raw owner table (lock boundary) are checked at every guard dereference / closure entry, every payload names its lock and carries a version that must equal a shadow copy (no lost, torn, stale or misrouted update), with a scheduling point inside every section, locks with zero-sized payloads (token locks: the audit catalogue checks their holds, the production-lock workload guards data that lives outside them and is watched by Miri / TSan) and a conservation check (final version = completed exclusive sections) through into_inner at the end.",
        design_ref="DESIGN.md §3 C02",
        level_note="Trusted: audit locks, payload/shadow bookkeeping in world.rs/exec.rs. Holds for the programs/schedules/shapes produced.",
        technique="runtime monitoring: section-overlap + payload continuity monitors under a seeded scheduler; Miri and ThreadSanitizer on free-running production locks",
    ),
    "C05": dict(
        level_text="Exploration by runtime monitoring: every raw release happylock issues is audited against the owner table (issuer must hold the lock, in that mode) and at the end of every episode every lock must be free; a library panic that escapes an API call while the thread holds locks without a guard is a leak. Under the writer-preferring policy a phantom writer queues behind every shared hold of the single-thread sweeps (the state in which parking_lot reports is_locked_exclusive() and refuses new readers). The same audit runs in the raw-lock fault sweeps (single-thread fault enumeration and concurrent episodes with one clean raw-lock panic): a release issued there for a healthy lock the caller does not hold is reported here too. Acquisitions are also made from destructors during an unrelated unwind.",
        design_ref="DESIGN.md §3 C05",
        level_note="Trusted: audit lock owner table. Holds for the programs/schedules/fault positions produced.",
        technique="runtime monitoring: release audit in auditing raw locks",
    ),
}

CHECKS.update({
    "C03": dict(
        level_text="Exploration by runtime monitoring: at the first raw operation of every acquiring call the caller's held set (audit owner table) must be empty, and whenever an API hands the key back (guard drop, unlock*, failed try, scoped return or unwind) the caller must hold nothing; after every step the same locks are re-acquired at once with the key that came back. Random API sequences with phantom holders, the exhaustive blocking shape sweep, every concurrent episode, calls made from destructors during an unrelated unwind, an observer inside every raw unlock of a guard release (the key must not be obtainable there), and calls unwound by a raw-lock panic - sequentially at every raw-op index and in concurrent episodes where one thread's raw operation panics (cleanly) while others are blocked on, hold, or later ask for the lock it killed.",
        design_ref="DESIGN.md §3 C03",
        level_note="Trusted: audit owner table; checked at API return, not at the raw unlock (scoped_* legitimately drops an owned key one statement before the release).",
        technique="runtime monitoring: held-set monitor at the client boundary over audit raw locks",
    ),
    "C04": dict(
        level_text="Exploration by runtime monitoring: owner-table diff across every acquisition against the leaf set computed from the harness's own description of the shape (exactly the leaves, requested mode, once each); failed try leaves nothing held and hands the key back; no blocking raw op inside try_*; closure invocations = 1 iff acquired. Exhaustive over shapes x pre-held patterns for sizes 0..3 (0..4 thorough) for try and blocking APIs, a static catalogue of happylock's own tuple/array/boxed-slice/&/&mut impls under the audit locks, plus concurrent episodes and the raw-lock fault sweep (an acquisition unwound by a panicking raw operation must leave no healthy member held); a third of the sweep's cases are made from a destructor that runs during an unrelated unwind (thread::panicking() true throughout).",
        design_ref="DESIGN.md §3 C04",
        level_note="Trusted: audit owner table, the harness's flattening of its own shape description (exec.rs expected_ids).",
        technique="runtime monitoring: owner-table diff vs shape oracle, exhaustive small-shape sweep + scheduled episodes",
    ),
    "C06": dict(
        level_text="Exploration by runtime monitoring: random histories over the key-affecting vocabulary run in lock-step on two threads; after every step, inside every live guard and inside every running scoped closure the thread probes ThreadKey::get() - the ordinary way and from a destructor during an unrelated unwind - and compares with an executable KeyModel (alive / not alive per thread). Found and fixed one genuine defect (a refused get() released the key).",
        design_ref="DESIGN.md §3 C06",
        level_note="Trusted: KeyModel (keyfam.rs, ~20 lines of transitions); the probe get()+drop restores the flag it found (true only since fix 0d590e4 — before it, the probe itself exposed the defect).",
        technique="runtime monitoring: reference-model (KeyModel) lock-step comparison at the client boundary",
    ),
    "C07": dict(
        level_text="Exploration by runtime monitoring: Boxed/Ref/Retrying::try_new verdicts are compared with a flattened-multiset oracle over harness lock ids for member lists with the duplicate pair at every pair of positions and in every alias form; accepted collections are locked and must hold exactly their leaves; one storage is re-checked after a slot was overwritten in place and after rejections (a verdict depends on the input alone). The compile-gated half (new/new_ref accept only owning inputs) is checked by 15 corpus routes (each with a compiling twin) and by run-time probes of which types implement OwnedLockable.",
        design_ref="DESIGN.md §3 C07",
        level_note="Trusted: DupOracle (dupfam.rs), Member dispatch. One listed known finding would be zero-sized owned units (see DESIGN.md §5 D8) — outside the dynamic generator.",
        technique="runtime monitoring: reference-model (multiset oracle) comparison over generated member lists",
    ),
    "C08": dict(
        level_text="Exploration by runtime monitoring: the blocking acquisition order of every call through a sorting collection is read from the raw-lock log and folded into one precedence relation per universe that must stay antisymmetric (no assumption that the order is by address; a lock given back and re-taken inside a call counts from its last acquisition, so a back-off that re-takes lower locks while holding a higher one is an inversion); owned units must stay contiguous. Includes 3-byte mutexes (a one-byte auditing raw lock) packed into one machine word.",
        design_ref="DESIGN.md §3 C08",
        level_note="Trusted: raw-lock event log order. Holds for the universes/arrangements produced.",
        technique="runtime monitoring: precedence-relation (ordering) checker over the raw-lock event log",
    ),
    "C09": dict(
        level_text="Exploration by runtime monitoring: every blocking raw operation issued inside a retrying-collection acquisition is checked at issue time - exact in the serialised scheduler - for 'not grantable while the caller holds a lock of another group' (an owned unit nested in the collection counts as one lock, as designed; retrying collections are also exercised wrapped in a Poisonable); completion is bounded progress: the episode must finish within the fair run-to-block phase after the random phase.",
        design_ref="DESIGN.md §3 C09",
        level_note="Trusted: audit lock grantability at issue time, scheduler. Owned units are treated as one lock (happylock blocks member by member inside a unit by design).",
        technique="runtime monitoring: wait-while-holding detector on raw-lock events under a seeded scheduler + bounded-progress check",
    ),
    "C10": dict(
        level_text="Exploration by runtime monitoring: an executable PoisonModel (must / may bits per Poisonable) is stepped alongside random histories of holds, panics, clear_poison and re-acquisitions through every route; is_poisoned() after every step and the Ok/Err of every Poisonable position of every acquisition must agree with it; holds taken through guard+unlock are ended by the explicit unlock function from a destructor when their section panics; holds made entirely inside an unrelated unwind may (not must) poison; `&mut` views (get_mut / child_mut) of a poisoned wrapper must leave it poisoned; a panic-free soak checks 'never spuriously poisoned'; the same model runs inside the concurrent panic episodes with a scheduling point right after every release (so a flag stored after the unlock can be overtaken). One genuine defect is recorded as a known finding (scoped closures of collections do not poison).",
        design_ref="DESIGN.md §3 C10, §5 D7",
        level_note="Trusted: PoisonModel transitions (exec.rs section(), poisonfam.rs). Three-valued where the statement is silent (panics under shared holds).",
        technique="runtime monitoring: reference-model (PoisonModel) comparison over generated panic histories",
    ),
    "C11": dict(
        level_text="Fault enumeration by runtime monitoring: a typed panic is injected in the critical section of every (shape x mode x API flavour x key style) case and, under the seeded scheduler, in sections of concurrent programs with waiters; after the unwind is caught at the client boundary the monitors require the injected payload (not swallowed / replaced), an empty held set, no release audited as bad, an obtainable key, no release rejected by the audit while the call and its panic unwound (also in the concurrent episodes), and progress of waiters (deadlock monitor / immediate re-acquisition). Every case is repeated from inside a destructor during an unrelated unwind (nested panic).",
        design_ref="DESIGN.md §3 C11",
        level_note="Trusted: audit owner table + release audit, scheduler. User panics and raw-lock faults are never combined in one episode.",
        technique="runtime monitoring with panic injection: owner-table, release-audit and key probes after caught unwinds",
    ),
    "C12": dict(
        level_text="Fault enumeration by runtime monitoring: for every (shape x mode x API x pre-held pattern) case a dry run counts the raw lock operations of the whole call; then a one-shot panic is injected at every raw-op index in phase before/after (and the persistent per-operation faults of tests/evil_*.rs at every leaf position). After the unwind is caught, rules R1-R5 are evaluated from the audit owner table, the release audit and post-mortem probes (faulted lock must refuse try and make blocking acquisition panic; healthy locks must still work). A concurrent lane injects one clean raw-lock panic per scheduled episode (thread and raw-op index drawn per item): calls unwound by it, or by the up-front panic of the lock it killed, must leave their thread holding nothing with an obtainable key, and the episode must still complete. Three genuine defect clusters were found and repaired (fix: commits ca28fe8, 99bc49a, 6f62146).",
        design_ref="DESIGN.md §3 C12, §5 D4-D6",
        level_note="Trusted: audit locks' fault injector + release audit; the faulted lock's own state is exempt from leak accounting except where the caller provably never held it.",
        technique="runtime monitoring with fault injection in auditing raw locks: exhaustive fault-position enumeration per case",
    ),
    "C13": dict(
        level_text="Exhaustive enumeration at runtime of the finite quiescent space (plus a static catalogue that includes collections used while empty and then grown / shrunk through Extend, child_mut and AsMut): every shape of sizes 0..3 (0..4 thorough) x every assignment of {free, read-held, write-held} x try_lock/try_read x try/scoped_try x both wake policies; outcome compared with TryOracle, owner table compared before/after.",
        design_ref="DESIGN.md §3 C13",
        level_note="Holders are phantom owners placed directly in the audit lock table (observationally identical for try-operations, which consult only the raw lock).",
        technique="runtime monitoring: exhaustive enumeration against a reference oracle over audit raw locks",
    ),
    "C14": dict(
        level_text="Other (compile-gated execution): one minimal offending program per escape route (202 routes: 62 hand-written escape shapes, including by-value consumption of collection guards and every unsafe-only entry point that bypasses the key, plus the cross product of every key-taking method of the 8 lock / wrapper / collection types with `()`, `&key` and - for guard APIs - `&mut key` in the key position), each with a compiling and running twin; rustc against the rlib built from the current tree decides; accepted offending programs are executed and must show their own harm. Plus run-time probes of which types implement Keyable (and that no key-carrying guard or error value is Clone, Copy, Default, IntoIterator by value, or Send with a GuardSend raw lock), and the C06 KeyModel histories as run-time evidence on the accepted surface. Two routes are open on the current tree and recorded as known finding D2; defect D10 (second key after a refused get) was found by the KeyModel and repaired.",
        design_ref="DESIGN.md §3 C14, §2.8",
        level_note="The 'for all programs' quantifier is sampled by a finite corpus of escape shapes; rejection is rustc's observation. Every *violation* this lane reports is backed by an executed witness.",
        technique="compile-gated corpus with executed witnesses + runtime KeyModel monitor",
        engine="compile-gate",
    ),
    "C15": dict(
        level_text="Other (compile-gated execution + sanitizers): 86 escape routes with twins (hand-written shapes plus, for every scoped method of every lock / wrapper / collection type, return-escape and - for Mutex/RwLock - Cell-capture escape of the closure's reference), the run-time auto-trait matrix (216 probes against std analogues) with marker-trait and constructor-bound probes (OwnedLockable; Default / FromIterator / Extend / From of collections over references) and the production-lock workload under Miri. Defects D1 (RwLock Sync / RefLockCollection Send bounds) and the Mutex/RwLock half of D3 were found here and repaired; the collection / Poisonable half of D3 is a recorded known finding, listed per call site (23 routes).",
        design_ref="DESIGN.md §3 C15, §2.8",
        level_note="Finite corpus of escape shapes; rustc decides acceptance; Miri / native self-checks provide witnesses for accepted programs.",
        technique="compile-gated corpus with executed witnesses, run-time auto-trait matrix vs std, Miri on production locks",
        engine="compile-gate",
    ),
    "C16": dict(
        level_text="Exploration by runtime monitoring + sanitizers: drop-counting tokens (table id -> drops, no addresses remembered) through every construction/destruction path of every collection kind and container shape, values written under a lock and compared positionally after extraction, also when a member lock has been killed (RawLock::poison) before the container is consumed, and when extend / from_iter are fed by an iterator that panics part way; the same workload runs under Miri (leak check on, double free / use-after-free / uninit reads are UB reports) and, in the thorough tier, under valgrind memcheck. Each sanitizer lane first has to flag a canary.",
        design_ref="DESIGN.md §3 C16",
        level_note="Trusted: token table; Miri / memcheck as oracles for leaks and invalid frees. Guards that own heap memory are not forgotten under the leak detectors (that leak would be the test's own).",
        technique="runtime monitoring: exactly-once drop accounting + Miri / valgrind memcheck on the same workload",
    ),
    "C17": dict(
        level_text="Exploration by runtime monitoring: every non-acquiring operation runs under a call context; the monitor rejects any blocking raw op inside it and any difference of the owner table before/after (transient try-acquire+release inside Debug is allowed). Locks are free, held by a phantom, held by the caller's own live guard, inside a running scoped closure, or held through a leaked guard; shapes with Poisonable leaves are swept a second time with every wrapper poisoned; every phantom-assignment case also formats into a sink that fails part way and with a payload whose Debug returns Err or panics; after operations that take &mut access the library's view of the locks (a try on the whole collection) must still agree with the audit table.",
        design_ref="DESIGN.md §3 C17",
        level_note="Trusted: audit owner table and call contexts. Found and fixed one genuine defect (Debug of a locked Mutex unlocked it).",
        technique="runtime monitoring: before/after owner-table diff + blocking-op detector around non-acquiring calls",
    ),
})

NOT_APPLICABLE = {}
