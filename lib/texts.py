"""Per-property manifest texts."""

CHECKS = {
    "C01": dict(
        level_text="Exploration by runtime monitoring: thousands of generated small programs are executed on the real happylock API over auditing raw locks under a seeded serialising scheduler (random and priority-based strategies, both rwlock wake policies); a deadlock is decided exactly (no eligible thread while some are unfinished, or a self-wait), never by timeout. Unbounded completion is restated as bounded progress under a fair completion phase.",
        design_ref="DESIGN.md §3 C01, §2.3",
        level_note="Trusted: audit lock + scheduler (world.rs), Member/Lk adapters. Holds only for the programs and schedules produced (counts in evidence).",
        technique="runtime monitoring: wait-for/deadlock monitor over audit raw locks under a seeded serialising scheduler",
    ),
    "C02": dict(
        level_text="Exploration by runtime monitoring: a section table (client boundary) and the raw owner table (lock boundary) are checked at every guard dereference / closure entry, every payload names its lock and carries a version that must equal a shadow copy (no lost, torn, stale or misrouted update), with a scheduling point inside every section and a conservation check (final version = completed exclusive sections) through into_inner at the end.",
        design_ref="DESIGN.md §3 C02",
        level_note="Trusted: audit locks, payload/shadow bookkeeping in world.rs/exec.rs. Holds for the programs/schedules/shapes produced.",
        technique="runtime monitoring: section-overlap + payload continuity monitors under a seeded scheduler",
    ),
    "C05": dict(
        level_text="Exploration by runtime monitoring: every raw release happylock issues is audited against the owner table (issuer must hold the lock, in that mode) and at the end of every episode every lock must be free.",
        design_ref="DESIGN.md §3 C05",
        level_note="Trusted: audit lock owner table. Holds for the fault-free programs/schedules produced.",
        technique="runtime monitoring: release audit in auditing raw locks",
    ),
}

NOT_APPLICABLE = {}
