#!/usr/bin/env python3
"""Add one seeded change to /verif/seeded from a sub-agent's deliverable directory.

  addseeded.py <Cnn> <n> <slug> <srcdir> <verify.json> <detect.json> [round]

<srcdir> holds patch.diff, demo.rs and README.md (line 1: the change, line 2: what it needs to
manifest); verify.json / detect.json are the outputs of `seedtest.py verify` / `seedtest.py detect
<dir> <Cnn>`. The first measured run and the final run are the same run here; a later
`redetect.py <id>` overwrites own_check_final only.
"""
import json
import os
import shutil
import sys

sys.path.insert(0, os.path.dirname(os.path.abspath(__file__)))
import redetect  # noqa: E402


def last_json(path):
    txt = open(path).read()
    return json.loads(txt[txt.index("\n{") if "\n{" in txt and not txt.startswith("{") else 0:])


def main():
    prop, n, slug, src, vf, df = sys.argv[1:7]
    rnd = sys.argv[7] if len(sys.argv) > 7 else "8"
    sid = "%s-%s-%s" % (prop, n, slug)
    dst = os.path.join("/verif/seeded", sid)
    os.makedirs(dst, exist_ok=True)
    shutil.copy(os.path.join(src, "patch.diff"), os.path.join(dst, "patch.diff"))
    shutil.copy(os.path.join(src, "demo.rs"), os.path.join(dst, "demo.rs"))
    shutil.copy(os.path.join(src, "README.md"), os.path.join(dst, "AUTHOR_README.md"))
    lines = [l.strip() for l in open(os.path.join(src, "README.md")).read().splitlines() if l.strip()]
    ver = last_json(vf)
    det = last_json(df)[prop]
    meta = {
        "id": sid,
        "breaks_property": prop,
        "change": lines[0].lstrip("# "),
        "needs_to_manifest": lines[1] if len(lines) > 1 else "",
        "origin": "round %s: written by an independent sub-agent that saw only the property text (plus one-line descriptions of the earlier rounds' changes, to avoid repeats) and a scratch worktree of /repo" % rnd,
        "confirmed": {
            "how": "lib/seedtest.py verify (scratch worktree of /repo at HEAD): patch applies; cargo test --offline --workspace passes with the patch; demo.rs passes without the patch and fails with it",
            "result": {k: v for k, v in ver.items() if k not in ("demo_output_with_change", "demo_output_without_change")},
        },
        "detection": {
            "how": "own property only: `git -C /repo apply patch.diff`, `./check %s --tier quick`, `git -C /repo checkout -- .` (lib/seedtest.py detect) with the committed machinery" % prop,
            "own_check_final": det,
            "first_measured_run": det,
            "caught_by": [prop] if det.get("exit") == 1 else [],
            "per_check": {prop: {"exit": det.get("exit"), "rules": det.get("rules"), "wall_s": det.get("wall")}},
        },
    }
    json.dump(meta, open(os.path.join(dst, "meta.json"), "w"), indent=1)
    redetect.table()
    print(sid, "caught" if det.get("exit") == 1 else "NOT caught (exit %s)" % det.get("exit"))


if __name__ == "__main__":
    main()
