#!/usr/bin/env python3
"""Evaluate a seeded change (patch.diff + demo) against the checks.

  seedtest.py verify <dir>                 confirm in a scratch worktree: patch applies, library
                                           compiles, existing tests pass, demo fails with / passes without
  seedtest.py detect <dir> [props|all]     apply the patch to /repo, run the quick checks, undo it
"""
import json
import os
import subprocess
import sys
import time

ROOT = os.path.dirname(os.path.dirname(os.path.abspath(__file__)))
WT = os.environ.get("SEED_WT", "/tmp/wt-verify")
ENV = dict(os.environ, CARGO_NET_OFFLINE="true")


def sh(cmd, cwd=None, timeout=1800):
    p = subprocess.run(cmd, cwd=cwd, shell=isinstance(cmd, str), env=ENV, stdout=subprocess.PIPE, stderr=subprocess.STDOUT, text=True, timeout=timeout)
    return p.returncode, p.stdout


def ensure_wt():
    if not os.path.isdir(WT):
        rc, out = sh("git -C /repo worktree add -q --detach %s HEAD" % WT)
        if rc != 0:
            print(out)
            sys.exit(2)
    sh("git checkout -q --detach main && git reset -q --hard main && git clean -fdq -e target", cwd=WT)


def demo_cmd(d):
    """the demo is an integration test file (tests/) unless it has a fn main"""
    src = open(os.path.join(d, "demo.rs")).read()
    is_test = "#[test]" in src
    return is_test


def run_demo(d, tag):
    name = "seed_demo_" + tag
    is_test = demo_cmd(d)
    if is_test:
        dst = os.path.join(WT, "tests", name + ".rs")
        open(dst, "w").write(open(os.path.join(d, "demo.rs")).read())
        rc, out = sh("timeout 600 cargo test --offline --test %s 2>&1 | tail -25" % name, cwd=WT)
        # rc of pipeline is tail's; parse
        ok = "test result: ok" in out and "FAILED" not in out
        os.remove(dst)
        return ok, out[-1500:]
    else:
        dst = os.path.join(WT, "examples", name + ".rs")
        open(dst, "w").write(open(os.path.join(d, "demo.rs")).read())
        rc, out = sh("timeout 600 cargo run --offline --example %s; echo EXIT=$?" % name, cwd=WT)
        ok = "EXIT=0" in out
        os.remove(dst)
        return ok, out[-1500:]


def verify(d):
    ensure_wt()
    res = {}
    rc, out = sh("git apply --check %s" % os.path.join(d, "patch.diff"), cwd=WT)
    if rc != 0:
        print("patch does not apply:", out)
        return dict(ok=False, why="patch does not apply")
    ok0, out0 = run_demo(d, "base")
    res["demo_passes_without_change"] = ok0
    sh("git apply %s" % os.path.join(d, "patch.diff"), cwd=WT)
    rc, out = sh("cargo test --offline --workspace --no-fail-fast 2>&1 | grep -E '^test result|FAILED|^error' ", cwd=WT)
    passed = sum(int(l.split()[3]) for l in out.splitlines() if l.startswith("test result"))
    failed = sum(int(l.split()[5]) for l in out.splitlines() if l.startswith("test result"))
    res["suite_with_change"] = dict(passed=passed, failed=failed, errors=[l for l in out.splitlines() if l.startswith("error")][:3])
    ok1, out1 = run_demo(d, "mut")
    res["demo_fails_with_change"] = not ok1
    sh("git checkout -q -- . && git clean -fdq -e target", cwd=WT)
    res["ok"] = ok0 and (not ok1) and failed == 0 and passed >= 192 and not res["suite_with_change"]["errors"]
    res["demo_output_with_change"] = out1[-600:]
    if not ok0:
        res["demo_output_without_change"] = out0[-600:]
    return res


def detect(d, props, tier="quick"):
    rc, out = sh("git -C /repo status --porcelain")
    if out.strip():
        print("/repo is not clean:", out)
        sys.exit(2)
    rc, out = sh("git -C /repo apply %s" % os.path.join(d, "patch.diff"))
    if rc != 0:
        print("apply failed", out)
        sys.exit(2)
    results = {}
    try:
        for p in props:
            t0 = time.time()
            rc, out = sh([os.path.join(ROOT, "check"), p, "--tier", tier], cwd=ROOT, timeout=3600)
            viol = [l for l in out.splitlines() if l.startswith("VIOLATION")]
            rules = sorted(set(l.strip().split()[0] for l in out.splitlines() if l.strip().startswith("rule=")))
            results[p] = dict(exit=rc, violations=len(viol), rules=rules, wall=round(time.time() - t0, 1),
                              note=next((l for l in out.splitlines() if l.startswith("INCONCLUSIVE")), "")[:300])
            print("  %s: exit=%d violations=%d %s %s" % (p, rc, len(viol), rules[:4], results[p]["note"][:120]), flush=True)
    finally:
        sh("git -C /repo checkout -- .")
        # evidence files were rewritten by runs on a mutated tree: restore the committed ones
        sh("git -C %s checkout -- evidence" % ROOT)
    return results


ALL = ["C%02d" % i for i in range(1, 18)]

if __name__ == "__main__":
    cmd, d = sys.argv[1], os.path.abspath(sys.argv[2])
    if cmd == "verify":
        r = verify(d)
        print(json.dumps(r, indent=1))
        sys.exit(0 if r.get("ok") else 1)
    elif cmd == "detect":
        props = ALL if len(sys.argv) < 4 or sys.argv[3] == "all" else sys.argv[3].split(",")
        tier = sys.argv[4] if len(sys.argv) > 4 else "quick"
        r = detect(d, props, tier)
        print(json.dumps(r, indent=1))
