#!/usr/bin/env python3
"""Regenerates /verif/MANIFEST.json from the registry in lanes.py + per-property texts."""
import json
import os
import sys

sys.path.insert(0, os.path.dirname(os.path.abspath(__file__)))
import lanes
import texts

ROOT = lanes.ROOT
props = [json.loads(l) for l in open(os.path.join(ROOT, "properties.jsonl"))]
checks = []
na = []
for p in props:
    pid = p["id"]
    if pid in lanes.PROPS and pid in texts.CHECKS:
        t = texts.CHECKS[pid]
        checks.append(
            dict(
                property_id=pid,
                quick_cmd="./check %s --tier quick" % pid,
                thorough_cmd="./check %s --tier thorough" % pid,
                evidence_file="/verif/evidence/%s.json" % pid,
                replay_cmd_template="./check %s --replay {path}" % pid,
                engine=t.get("engine", "hlmon"),
                level_claimed=dict(category=lanes.PROPS[pid]["level"], text=t["level_text"], design_ref=t["design_ref"]),
                level_note=t["level_note"],
                technique=t["technique"],
            )
        )
    else:
        na.append(dict(property_id=pid, reason=texts.NOT_APPLICABLE.get(pid, "check not built yet in this round; see DESIGN.md for the plan")))

m = dict(
    version=1,
    setup_cmd="cd /verif/harness && CARGO_NET_OFFLINE=true cargo build --release --offline",
    hooks=dict(
        guard="none",
        enable="no source hooks: the harness plugs its own lock_api::RawMutex/RawRwLock (audit locks) into happylock's generic Mutex<T,R>/RwLock<T,R> and path-depends on /repo",
        baseline_off_cmd="cd /repo && cargo test --workspace --no-fail-fast --offline",
        source_commits=[],
        add_only=True,
    ),
    engines=[
        dict(name="hlmon", path="/verif/harness", serves_properties=sorted(lanes.PROPS.keys()),
             kind_free_text="Rust harness: audit raw locks + seeded serialising scheduler + event-log monitors and reference models run against the real happylock API"),
    ],
    checks=checks,
    not_applicable=na,
    notes="Runtime monitoring only; see DESIGN.md. Known genuine defects are listed in known_findings.json.",
)
json.dump(m, open(os.path.join(ROOT, "MANIFEST.json"), "w"), indent=1)
print("MANIFEST.json: %d checks, %d not_applicable" % (len(checks), len(na)))
